/* mc.h -- shared engine for the bounded-exhaustive explorers (see DESIGN.md 1.3).
 *
 * A harness is a C program that explores a finite space on the real code and
 * writes one JSON object per line to the file named by $MC_OUT (default stdout):
 *   {"t":"stat","k":"<counter>","v":<int>}         counters (summed across shards)
 *   {"t":"sample","v":"<case>"}                    written-out cases
 *   {"t":"viol","sig":"<signature>","case":"<case descriptor>","detail":"..."}
 *   {"t":"flag","k":"<name>","v":true|false}       e.g. exhaustive
 * The driver (/verif/check) merges, replays each violating case twice through
 * `--case <descriptor>` and decides VIOLATION / KNOWN-FINDING.
 */
#ifndef MC_H
#define MC_H
#include <stdarg.h>
#include <stdint.h>
#include <stdio.h>
#include <stdlib.h>
#include <string.h>
#include <time.h>

static FILE *mc_fp;
static double mc_t0;
static double mc_deadline_s = 0; /* 0 = none */
static int mc_in_case = 0;
static int mc_capped = 0;

static double
mc_now(void)
{
    struct timespec ts;
    clock_gettime(CLOCK_MONOTONIC, &ts);
    return ts.tv_sec + ts.tv_nsec * 1e-9;
}

static void
mc_init(void)
{
    const char *p = getenv("MC_OUT");
    mc_fp = p ? fopen(p, "a") : stdout;
    if (!mc_fp) {
        perror("MC_OUT");
        exit(2);
    }
    mc_t0 = mc_now();
    p = getenv("MC_DEADLINE_S");
    if (p)
        mc_deadline_s = atof(p);
}

static int
mc_past_deadline(void)
{
    if (mc_deadline_s > 0 && mc_now() - mc_t0 > mc_deadline_s) {
        mc_capped = 1;
        return 1;
    }
    return 0;
}

static void
mc_json_str(FILE *fp, const char *s)
{
    fputc('"', fp);
    for (; *s; s++) {
        unsigned char c = (unsigned char)*s;
        if (c == '"' || c == '\\')
            fprintf(fp, "\\%c", c);
        else if (c < 0x20 || c >= 0x7f)
            fprintf(fp, "\\u%04x", c);
        else
            fputc(c, fp);
    }
    fputc('"', fp);
}

static void
mc_stat(const char *k, long long v)
{
    fprintf(mc_fp, "{\"t\":\"stat\",\"k\":\"%s\",\"v\":%lld}\n", k, v);
    fflush(mc_fp);
}

static void
mc_max(const char *k, long long v)
{
    fprintf(mc_fp, "{\"t\":\"max\",\"k\":\"%s\",\"v\":%lld}\n", k, v);
    fflush(mc_fp);
}

static void
mc_flag(const char *k, int v)
{
    fprintf(mc_fp, "{\"t\":\"flag\",\"k\":\"%s\",\"v\":%s}\n", k, v ? "true" : "false");
    fflush(mc_fp);
}

static int mc_nsamples = 0;
static void
mc_sample(const char *fmt, ...)
{
    char buf[4096];
    va_list ap;
    if (mc_nsamples >= 8)
        return;
    mc_nsamples++;
    va_start(ap, fmt);
    vsnprintf(buf, sizeof buf, fmt, ap);
    va_end(ap);
    fprintf(mc_fp, "{\"t\":\"sample\",\"v\":");
    mc_json_str(mc_fp, buf);
    fprintf(mc_fp, "}\n");
    fflush(mc_fp);
}

static void mc_shared_viol(void);
/* Violations: every one is counted; at most MC_KEEP cases per signature are written. */
#define MC_MAXSIG 256
#define MC_KEEP 2
static struct {
    char sig[200];
    long long n;
} mc_sigs[MC_MAXSIG];
static int mc_nsig = 0;
static long long mc_nviol = 0;

static int mc_mute; /* set while a harness re-creates context for a replay: nothing is recorded */
static void
mc_viol(const char *sig, const char *casedesc, const char *fmt, ...)
{
    char buf[2048];
    va_list ap;
    int i;
    if (mc_mute)
        return;
    mc_nviol++;
    mc_shared_viol();
    for (i = 0; i < mc_nsig; i++)
        if (strcmp(mc_sigs[i].sig, sig) == 0)
            break;
    if (i == mc_nsig) {
        if (mc_nsig == MC_MAXSIG)
            return;
        snprintf(mc_sigs[i].sig, sizeof mc_sigs[i].sig, "%s", sig);
        mc_sigs[i].n = 0;
        mc_nsig++;
    }
    if (mc_sigs[i].n++ >= MC_KEEP)
        return;
    va_start(ap, fmt);
    vsnprintf(buf, sizeof buf, fmt, ap);
    va_end(ap);
    fprintf(mc_fp, "{\"t\":\"viol\",\"sig\":");
    mc_json_str(mc_fp, sig);
    fprintf(mc_fp, ",\"case\":");
    mc_json_str(mc_fp, casedesc);
    fprintf(mc_fp, ",\"detail\":");
    mc_json_str(mc_fp, buf);
    fprintf(mc_fp, "}\n");
    fflush(mc_fp);
}

static long long mc_sh_viols(void);
static void
mc_finish(void)
{
    int i;
    mc_in_case = 0;
    for (i = 0; i < mc_nsig; i++) {
        fprintf(mc_fp, "{\"t\":\"sigcount\",\"sig\":");
        mc_json_str(mc_fp, mc_sigs[i].sig);
        fprintf(mc_fp, ",\"v\":%lld}\n", mc_sigs[i].n);
    }
    mc_stat("violations_raw", mc_sh_viols() > mc_nviol ? mc_sh_viols() : mc_nviol);
    if (mc_capped)
        mc_flag("capped", 1);
    fprintf(mc_fp, "{\"t\":\"done\"}\n");
    fflush(mc_fp);
}

/* ---------- crash attribution for in-process explorers ----------
 * The explorer records the case being executed; if a sanitizer report, an assertion or
 * an exit() ends the process, the death hook writes a "crash" record naming that case so
 * the driver can build a signature from the sanitizer summary on stderr and replay it. */
#include <signal.h>
#include <unistd.h>
static char mc_current[16384];
static void
mc_set_current(const char *c)
{
    snprintf(mc_current, sizeof mc_current, "%s", c);
    mc_in_case = 1;
}
static int mc_child_mode; /* in a forked child the parent attributes the crash */
static void
mc_crash_record(const char *kind)
{
    if (!mc_fp || !mc_in_case || mc_child_mode)
        return;
    mc_in_case = 0;
    fprintf(mc_fp, "{\"t\":\"crash\",\"kind\":\"%s\",\"case\":", kind);
    mc_json_str(mc_fp, mc_current);
    fprintf(mc_fp, "}\n");
    fflush(mc_fp);
}
static void
mc_death_cb(void)
{
    mc_crash_record("sanitizer");
}
static void
mc_sig_cb(int sig)
{
    mc_crash_record(sig == SIGABRT ? "abort" : (sig == SIGALRM || sig == SIGPROF) ? "hang" : "signal");
    _exit((sig == SIGALRM || sig == SIGPROF) ? 98 : 99);
}
static void
mc_atexit_cb(void)
{
    mc_crash_record("exit");
}
#if defined(__SANITIZE_ADDRESS__)
void __sanitizer_set_death_callback(void (*)(void));
size_t __sanitizer_get_current_allocated_bytes(void);
#define MC_ALLOCATED() __sanitizer_get_current_allocated_bytes()
#else
#define MC_ALLOCATED() ((size_t)0)
#endif
static void
mc_install_crash_hooks(void)
{
#if defined(__SANITIZE_ADDRESS__)
    __sanitizer_set_death_callback(mc_death_cb);
#endif
    signal(SIGABRT, mc_sig_cb);
#if !defined(__SANITIZE_ADDRESS__)
    /* under the address sanitizer these two stay with the sanitizer: its report names the faulting function, which
     * gives the same signature in the exploration and in a replay */
    signal(SIGSEGV, mc_sig_cb);
    signal(SIGFPE, mc_sig_cb);
#endif
    signal(SIGALRM, mc_sig_cb);
    signal(SIGPROF, mc_sig_cb);
    atexit(mc_atexit_cb);
}

/* ---------- 128-bit hashing of canonical states ---------- */
typedef struct {
    uint64_t a, b;
} mc_h128;

static mc_h128
mc_hash(const void *data, size_t n)
{
    const unsigned char *p = data;
    uint64_t a = 0xcbf29ce484222325ULL, b = 0x9e3779b97f4a7c15ULL;
    size_t i;
    for (i = 0; i < n; i++) {
        a = (a ^ p[i]) * 0x100000001b3ULL;
        b = (b + p[i] + (b << 6) + (b >> 2)) * 0xff51afd7ed558ccdULL;
        b ^= b >> 29;
    }
    a ^= n;
    b ^= a >> 31;
    {
        mc_h128 h = { a, b };
        return h;
    }
}

typedef struct {
    mc_h128 *tab;
    size_t cap, n;
} mc_set;

static void
mc_set_init(mc_set *s, size_t cap)
{
    s->cap = 1;
    while (s->cap < cap)
        s->cap <<= 1;
    s->tab = calloc(s->cap, sizeof *s->tab);
    s->n = 0;
}

static int mc_set_add(mc_set *s, mc_h128 h);
static void
mc_set_grow(mc_set *s)
{
    mc_set o = *s;
    size_t i;
    mc_set_init(s, o.cap * 2);
    for (i = 0; i < o.cap; i++)
        if (o.tab[i].a | o.tab[i].b)
            mc_set_add(s, o.tab[i]);
    free(o.tab);
}

/* returns 1 if newly added */
static int
mc_set_add(mc_set *s, mc_h128 h)
{
    size_t i;
    if (!(h.a | h.b))
        h.a = 1;
    if (s->n * 2 >= s->cap)
        mc_set_grow(s);
    for (i = h.a & (s->cap - 1);; i = (i + 1) & (s->cap - 1)) {
        if (!(s->tab[i].a | s->tab[i].b)) {
            s->tab[i] = h;
            s->n++;
            return 1;
        }
        if (s->tab[i].a == h.a && s->tab[i].b == h.b)
            return 0;
    }
}

/* ---------- canonical-state byte buffer ---------- */
typedef struct {
    unsigned char *p;
    size_t n, cap;
} mc_buf;

static void
mc_buf_put(mc_buf *b, const void *d, size_t n)
{
    if (b->n + n > b->cap) {
        b->cap = (b->n + n) * 2 + 64;
        b->p = realloc(b->p, b->cap);
    }
    memcpy(b->p + b->n, d, n);
    b->n += n;
}
#define MC_PUT(b, v) mc_buf_put((b), &(v), sizeof(v))
static void
mc_buf_i(mc_buf *b, long long v)
{
    mc_buf_put(b, &v, sizeof v);
}

/* ---------- E-BFS over operation histories replayed on fresh real objects ----------
 * The harness supplies:
 *   nops                       size of the operation alphabet
 *   fresh(ctx)                 -> new (object, reference model) pair
 *   apply(ctx, obj, op, check) -> 0 applied, 1 op not enabled here, -1 violation (already reported);
 *                                 when check != 0 the oracle is evaluated after the transition
 *   canon(ctx, obj, buf)       canonical serialisation of the mutable state
 *   release(ctx, obj)
 * A state is stored as (parent, op); replaying a stored history must reproduce the stored
 * canonical hash, otherwise the harness stops with a hard error (exit 2).
 */
typedef struct {
    int nops;
    void *(*fresh)(void *ctx);
    int (*apply)(void *ctx, void *obj, int op, int check, const char *hist);
    void (*canon)(void *ctx, void *obj, mc_buf *b);
    void (*release)(void *ctx, void *obj);
    const char *(*opname)(void *ctx, int op);
    void *ctx;
    int max_depth; /* 0 = to fixpoint */
    size_t max_states; /* safety cap; hitting it clears `exhaustive` */
} mc_bfs_spec;

typedef struct {
    uint32_t parent;
    uint16_t op;
    uint16_t depth;
    mc_h128 h;
} mc_node;

typedef struct {
    long long states, transitions, max_depth_seen, disabled, viol;
    int fixpoint;
} mc_bfs_result;

static void
mc_bfs_history(mc_bfs_spec *sp, mc_node *nodes, uint32_t idx, int extra_op, int *ops, int *nops,
               char *str, size_t strn)
{
    int n = 0, i;
    uint32_t j;
    size_t off = 0;
    for (j = idx; j != 0; j = nodes[j].parent)
        n++;
    *nops = n;
    for (j = idx, i = n - 1; j != 0; j = nodes[j].parent, i--)
        ops[i] = nodes[j].op;
    if (extra_op >= 0)
        ops[(*nops)++] = extra_op;
    str[0] = 0;
    for (i = 0; i < *nops && off + 40 < strn; i++)
        off += snprintf(str + off, strn - off, "%s%s", i ? " " : "", sp->opname(sp->ctx, ops[i]));
}

static mc_bfs_result
mc_bfs_run(mc_bfs_spec *sp)
{
    mc_bfs_result r = { 0 };
    mc_set seen;
    mc_node *nodes;
    size_t ncap = 1 << 16, nn = 0, head;
    mc_buf cb = { 0 };
    int ops[4096], nops, op, i;
    char hist[16384];
    void *obj;
    size_t alloc0 = 0, cbcap0 = 0;

    mc_set_init(&seen, 1 << 16);
    nodes = malloc(ncap * sizeof *nodes);
    /* root */
    obj = sp->fresh(sp->ctx);
    cb.n = 0;
    sp->canon(sp->ctx, obj, &cb);
    sp->release(sp->ctx, obj);
    nodes[0].parent = 0;
    nodes[0].op = 0;
    nodes[0].depth = 0;
    nodes[0].h = mc_hash(cb.p, cb.n);
    mc_set_add(&seen, nodes[0].h);
    nn = 1;
    r.fixpoint = 1;
    for (head = 0; head < nn; head++) {
        if (sp->max_depth && nodes[head].depth >= sp->max_depth) {
            r.fixpoint = 0;
            continue;
        }
        if (mc_past_deadline()) {
            r.fixpoint = 0;
            break;
        }
        for (op = 0; op < sp->nops; op++) {
            int rc = 0;
            mc_h128 h;
            mc_bfs_history(sp, nodes, (uint32_t)head, op, ops, &nops, hist, sizeof hist);
            mc_set_current(hist);
            alloc0 = MC_ALLOCATED();
            obj = sp->fresh(sp->ctx);
            for (i = 0; i < nops - 1; i++) {
                rc = sp->apply(sp->ctx, obj, ops[i], 0, hist);
                if (rc != 0) {
                    fprintf(stderr, "mc_bfs: replay of stored history diverged at step %d: %s\n", i, hist);
                    exit(2);
                }
            }
            if (op == 0) {
                /* replay determinism: the prefix must reproduce the stored canonical state */
                cb.n = 0;
                sp->canon(sp->ctx, obj, &cb);
                h = mc_hash(cb.p, cb.n);
                if (h.a != nodes[head].h.a || h.b != nodes[head].h.b) {
                    fprintf(stderr, "mc_bfs: replay gave a different canonical state: %s\n", hist);
                    exit(2);
                }
            }
            rc = sp->apply(sp->ctx, obj, op, 1, hist);
            if (rc == 1) {
                r.disabled++;
                sp->release(sp->ctx, obj);
                continue;
            }
            r.transitions++;
            if (rc < 0) {
                r.viol++;
                sp->release(sp->ctx, obj);
                continue; /* do not explore beyond a violating transition */
            }
            cb.n = 0;
            sp->canon(sp->ctx, obj, &cb);
            sp->release(sp->ctx, obj);
            if (MC_ALLOCATED() != alloc0 && cb.cap == cbcap0) {
                mc_viol("leak-after-release", hist, "%ld bytes still allocated after the object was freed",
                        (long)(MC_ALLOCATED() - alloc0));
                r.viol++;
            }
            cbcap0 = cb.cap;
            h = mc_hash(cb.p, cb.n);
            if (mc_set_add(&seen, h)) {
                if (sp->max_states && nn >= sp->max_states) {
                    r.fixpoint = 0;
                    mc_capped = 1;
                    continue;
                }
                if (nn == ncap) {
                    ncap *= 2;
                    nodes = realloc(nodes, ncap * sizeof *nodes);
                }
                nodes[nn].parent = (uint32_t)head;
                nodes[nn].op = (uint16_t)op;
                nodes[nn].depth = nodes[head].depth + 1;
                nodes[nn].h = h;
                if (nodes[nn].depth > r.max_depth_seen)
                    r.max_depth_seen = nodes[nn].depth;
                if ((nn & (nn - 1)) == 0 && nn >= 16)
                    mc_sample("%s", hist);
                nn++;
            }
        }
    }
    r.states = (long long)nn;
    free(nodes);
    free(seen.tab);
    free(cb.p);
    return r;
}

/* parse a space-separated history of op names back into op numbers; returns count or -1 */
static int
mc_parse_history(mc_bfs_spec *sp, const char *s, int *ops, int maxops)
{
    int n = 0;
    char tok[256];
    while (*s) {
        int l = 0, op;
        while (*s == ' ')
            s++;
        if (!*s)
            break;
        while (*s && *s != ' ' && l < 255)
            tok[l++] = *s++;
        tok[l] = 0;
        for (op = 0; op < sp->nops; op++)
            if (strcmp(sp->opname(sp->ctx, op), tok) == 0)
                break;
        if (op == sp->nops || n == maxops)
            return -1;
        ops[n++] = op;
    }
    return n;
}

/* replay one history with the oracle on at every step; returns number of violating steps */
static int
mc_bfs_replay(mc_bfs_spec *sp, const char *hist)
{
    int ops[4096], n, i, bad = 0;
    void *obj;
    n = mc_parse_history(sp, hist, ops, 4096);
    if (n < 0) {
        fprintf(stderr, "cannot parse history: %s\n", hist);
        exit(2);
    }
    mc_set_current(hist);
    obj = sp->fresh(sp->ctx);
    for (i = 0; i < n; i++) {
        int rc = sp->apply(sp->ctx, obj, ops[i], 1, hist);
        if (rc < 0) {
            bad++;
            break;
        }
        if (rc == 1) {
            fprintf(stderr, "replay: op %d not enabled\n", i);
            exit(2);
        }
    }
    sp->release(sp->ctx, obj);
    return bad;
}

/* ---------- batch-forked case loop ----------
 * The parent holds the expensive state (a decoder); cases run in forked children, a batch per child.
 * A child that dies (sanitizer report, assertion, exit, hang) costs one case: the parent records a
 * "crash" for the case the child had announced, with the child's stderr, and a new child continues
 * after it.  run(i, arg) returns >0 non-trivial, 0 trivial, <0 violation (already reported). */
#include <sys/mman.h>
#include <sys/time.h>
#include <sys/wait.h>
#include <fcntl.h>
typedef struct {
    long long cur; /* index of the case being executed */
    long long evals, nontriv, viol_lines;
    long long counters[16];
    char desc[8192];
} mc_shared_t;
static mc_shared_t *mc_sh;
static const char *mc_counter_names[16];

static long long
mc_sh_viols(void)
{
    return mc_sh ? mc_sh->viol_lines : 0;
}

static void
mc_shared_viol(void)
{
    if (mc_sh)
        mc_sh->viol_lines++;
}

static void
mc_case_begin(long long idx, const char *desc)
{
    if (mc_sh) {
        mc_sh->cur = idx;
        snprintf(mc_sh->desc, sizeof mc_sh->desc, "%s", desc);
    }
    mc_set_current(desc);
}

static void
mc_count(int k, long long v)
{
    if (mc_sh)
        mc_sh->counters[k] += v;
}

static int
mc_fork_loop(long long first, long long end, long long step, int batch, int hang_s, int (*run)(long long, void *), void *arg)
{
    long long next = first;
    char errpath[256];
    int complete = 1;
    if (!mc_sh) {
        mc_sh = mmap(NULL, sizeof *mc_sh, PROT_READ | PROT_WRITE, MAP_SHARED | MAP_ANONYMOUS, -1, 0);
        memset(mc_sh, 0, sizeof *mc_sh);
    }
    snprintf(errpath, sizeof errpath, "%s.child-stderr", getenv("MC_OUT") ? getenv("MC_OUT") : "/tmp/mc");
    while (next < end) {
        pid_t pid;
        int st;
        long long stop = next + (long long)batch * step;
        if (stop > end)
            stop = end;
        if (mc_past_deadline()) {
            complete = 0;
            break;
        }
        fflush(mc_fp);
        fflush(stderr);
        mc_sh->cur = -1;
        pid = fork();
        if (pid == 0) {
            long long i;
            int fd = open(errpath, O_WRONLY | O_CREAT | O_TRUNC, 0644);
            if (fd >= 0) {
                dup2(fd, 2);
                close(fd);
            }
            mc_nsig = 0; /* per-child signature table */
            mc_child_mode = 1;
            for (i = next; i < stop; i += step) {
                int rc;
                /* a hang is hang_s seconds of CPU time of this process (independent of machine load); the wall-clock
                 * alarm is only a distant backstop */
                if (hang_s) {
                    struct itimerval tv;
                    memset(&tv, 0, sizeof tv);
                    tv.it_value.tv_sec = hang_s;
                    setitimer(ITIMER_PROF, &tv, NULL);
                    alarm(hang_s * 30);
                }
                rc = run(i, arg);
                if (hang_s) {
                    struct itimerval tv;
                    memset(&tv, 0, sizeof tv);
                    setitimer(ITIMER_PROF, &tv, NULL);
                    alarm(0);
                }
                mc_sh->evals++;
                if (rc > 0)
                    mc_sh->nontriv++;
            }
            mc_in_case = 0;
            mc_sh->cur = -2;
            fflush(mc_fp);
            _exit(0);
        }
        if (pid < 0) {
            perror("fork");
            exit(2);
        }
        waitpid(pid, &st, 0);
        if (mc_sh->cur == -2 && WIFEXITED(st) && WEXITSTATUS(st) == 0) {
            next = stop;
            continue;
        }
        /* the child died inside case mc_sh->cur (or before announcing one) */
        {
            char buf[6000];
            size_t n = 0;
            FILE *ef = fopen(errpath, "r");
            const char *kind = WIFSIGNALED(st) ? ((WTERMSIG(st) == SIGALRM || WTERMSIG(st) == SIGPROF) ? "hang" : "signal")
                : WEXITSTATUS(st) == 98                                  ? "hang"
                : WEXITSTATUS(st) == 97                                  ? "sanitizer"
                : WEXITSTATUS(st) == 99                                  ? "abort"
                                                                         : "exit";
            buf[0] = 0;
            if (ef) {
                /* keep the head of the report (the error line and the first frames) */
                n = fread(buf, 1, sizeof buf - 1, ef);
                buf[n] = 0;
                fclose(ef);
            }
            if (mc_sh->cur < 0) {
                fprintf(stderr, "child died outside a case: %s\n", buf);
                exit(2);
            }
            fprintf(mc_fp, "{\"t\":\"crash\",\"kind\":\"%s\",\"rc\":%d,\"case\":", kind, WIFEXITED(st) ? WEXITSTATUS(st) : -WTERMSIG(st));
            mc_json_str(mc_fp, mc_sh->desc);
            fprintf(mc_fp, ",\"stderr\":");
            mc_json_str(mc_fp, buf);
            fprintf(mc_fp, "}\n");
            fflush(mc_fp);
            mc_sh->evals++;
            next = mc_sh->cur + step;
        }
    }
    unlink(errpath);
    return complete;
}

/* small argv helpers */
static const char *
mc_arg(int argc, char **argv, const char *name, const char *dflt)
{
    int i;
    for (i = 1; i + 1 < argc; i++)
        if (strcmp(argv[i], name) == 0)
            return argv[i + 1];
    return dflt;
}
static int
mc_has(int argc, char **argv, const char *name)
{
    int i;
    for (i = 1; i < argc; i++)
        if (strcmp(argv[i], name) == 0)
            return 1;
    return 0;
}
#endif
