/* H13 mc_hmm -- the HMM evaluator (src/hmm.c) driven directly, for the two clauses that the decoder-level
 * harnesses cannot reach with the bundled three-state models and realistic score magnitudes:
 *
 *   C18  "path scores never wrap around": E-BFS over operation histories on ONE real hmm_t
 *        (enter / evaluate a frame with senone costs from {0, 32767} / clear), started from the cleared
 *        object AND from states just above the floor WORST_SCORE, with a closure operation: the worst
 *        frame repeated until nothing changes.  After every transition no score may be positive or better
 *        than the best score that existed before the transition (all costs are non-negative, so an
 *        improvement is a wrap-around), and under the constant worst frame the state must reach a FIXPOINT
 *        within 16500 frames (a score that keeps falling must wrap; a fixpoint closes the claim for
 *        histories of every length).  The library is built with the signed-overflow trap.
 *   C02  "the reported score is the Viterbi optimum": E-BFS, far from the floor, over frames with senone
 *        costs from {0, 9, 700}; after EVERY transition every state score, the exit score, the returned best
 *        score and every history pointer are compared with one step of a reference Viterbi recursion computed
 *        in 64-bit arithmetic from the state before the transition.  Run for the 3-state evaluator, the
 *        5-state evaluator and the generic evaluator (1, 2 and 4 emitting states) -- the latter two are never
 *        selected by the bundled models.
 *
 * usage: mc_hmm --regime A|B --nst N --tmat K [--init I] --depth D [--case "<history>"]
 * Only non-multiplexed HMMs: the library never creates a multiplexed one (hmm_init(..., FALSE, ...) at every site).
 */
#include "../engine/mc.h"
#include <limits.h>
#include <soundswallower/err.h>
#include <soundswallower/hmm.h>

#define MAXN 5
static int N, TM, INIT, REGIME; /* REGIME 0 = A (optimum), 1 = B (floor) */
static uint8 tpflat[MAXN * (MAXN + 1)];
static uint8 *tprow[MAXN];
static uint8 **tpm[1];
static uint16 sseq0[MAXN];
static uint16 *sseq[1];
static int16 senscore[MAXN];
static hmm_context_t *ctx;
#define TAILLEN 16500

/* transition-cost menus; 255 = "no such transition" where the evaluator honours it */
static int
fill_tmat(int k)
{
    int i, j;
    /* self, next, skip costs per menu entry */
    static const int M3[][3] = { { 0, 0, 255 }, { 3, 1, 255 }, { 3, 1, 2 }, { 254, 0, 255 }, { 0, 254, 0 }, { 7, 7, 7 } };
    static const int M5[][3] = { { 0, 0, 0 }, { 3, 1, 2 }, { 3, 1, 200 }, { 254, 0, 1 }, { 0, 254, 0 }, { 1, 2, 254 } };
    for (i = 0; i < N; i++) {
        tprow[i] = tpflat + i * (N + 1);
        for (j = 0; j <= N; j++)
            tprow[i][j] = 255;
    }
    if (N == 3 || N == 5) {
        const int *m = N == 3 ? M3[k] : M5[k];
        if (k < 0 || k >= 6)
            return -1;
        for (i = 0; i < N; i++) {
            tprow[i][i] = (uint8)(m[0] + (i == 1 && m[0] && m[0] < 250 ? 1 : 0)); /* state 1 differs a little: ties are not the rule */
            tprow[i][i + 1] = (uint8)m[1];
            if (i + 2 <= N)
                tprow[i][i + 2] = (uint8)m[2];
        }
    } else {
        /* generic evaluator: any upper-triangular shape */
        switch (k) {
        case 0: /* everything allowed, cost 0 */
            for (i = 0; i < N; i++)
                for (j = i; j <= N; j++)
                    tprow[i][j] = 0;
            break;
        case 1: /* left-to-right, no skips, small costs */
            for (i = 0; i < N; i++) {
                tprow[i][i] = (uint8)(3 + i);
                tprow[i][i + 1] = 1;
            }
            break;
        case 2: /* states without a self-loop (except the entry state) and long skips */
            for (i = 0; i < N; i++)
                for (j = i + 1; j <= N; j++)
                    tprow[i][j] = (uint8)(2 * (j - i));
            tprow[0][0] = 5;
            break;
        case 3: /* entry state without a self-loop */
            for (i = 0; i < N; i++) {
                tprow[i][i] = (uint8)(i ? 4 : 255);
                tprow[i][i + 1] = 254;
                if (i + 2 <= N)
                    tprow[i][i + 2] = 0;
            }
            break;
        default:
            return -1;
        }
    }
    return 0;
}

/* ---- operation alphabet: op = frame(enter choice, senone vector) | clear | normalise | worst-tail | entry-worst-tail ---- */
static int NVEC, NENTER, NFRAMEOPS, NOPS;
static int ALPHA[3];
static int NALPHA;
#define OP_CLEAR (NFRAMEOPS)
#define OP_NORM (NFRAMEOPS + 1)
#define OP_TAIL (NFRAMEOPS + 2)
#define OP_TAIL0 (NFRAMEOPS + 3)

static int
enter_score(int e)
{
    if (e == 1)
        return 0;
    if (e == 2)
        return REGIME ? WORST_SCORE + 5 : -10;
    return 1; /* none */
}

static void
vec_costs(int v, int *c)
{
    int i;
    for (i = 0; i < N; i++) {
        c[i] = ALPHA[v % NALPHA];
        v /= NALPHA;
    }
}

typedef struct {
    hmm_t h;
    int frame;
} obj_t;

static const char *
opname(void *c, int op)
{
    static char b[8][64];
    static int k;
    char *s = b[k++ & 7];
    (void)c;
    if (op == OP_CLEAR)
        return "clear";
    if (op == OP_NORM)
        return "norm";
    if (op == OP_TAIL)
        return "tail";
    if (op == OP_TAIL0)
        return "tail0";
    snprintf(s, 64, "e%dv%d", op / NVEC, op % NVEC);
    return s;
}

static void *
fresh(void *c)
{
    obj_t *o = calloc(1, sizeof *o);
    int i;
    (void)c;
    hmm_init(ctx, &o->h, FALSE, 0, 0);
    if (REGIME && INIT) {
        /* states just above the floor: what hours of bad audio would leave behind (hmm_enter can deliver any of them) */
        static const int OFF[4][MAXN + 1] = {
            { 0 }, { 70000, 70000, 70000, 70000, 70000, 70000 }, { 1, 40000, 40000, 40000, 40000, 40000 }, { 536870907, 1, 33000, 1, 33000, 2 }
        };
        for (i = 0; i < N; i++) {
            o->h.score[i] = WORST_SCORE + OFF[INIT][i];
            o->h.history[i] = 100 + i;
        }
        o->h.out_score = WORST_SCORE + OFF[INIT][N];
        o->h.out_history = 100 + N;
        o->h.frame = 0;
    }
    return o;
}

static void
release(void *c, void *p)
{
    (void)c;
    hmm_deinit(&((obj_t *)p)->h);
    free(p);
}

static void
canon(void *c, void *p, mc_buf *b)
{
    obj_t *o = p;
    int i;
    (void)c;
    for (i = 0; i < N; i++) {
        mc_buf_i(b, o->h.score[i]);
        /* a history pointer of a dead state is never read: only live ones are state */
        mc_buf_i(b, o->h.score[i] > WORST_SCORE ? o->h.history[i] : -7);
    }
    mc_buf_i(b, o->h.out_score);
    mc_buf_i(b, o->h.out_score > WORST_SCORE ? o->h.out_history : -7);
    mc_buf_i(b, o->h.bestscore);
    /* the frame counter only numbers the entries (history tags); two states that differ in it alone have the same futures up to renaming,
     * but the tags are compared literally, so it stays in the state */
    mc_buf_i(b, o->frame);
}

static void
state_str(hmm_t *h, char *s, size_t n)
{
    int i;
    size_t off = 0;
    for (i = 0; i < N; i++)
        off += snprintf(s + off, n - off, "%d/%d ", h->score[i], h->history[i]);
    snprintf(s + off, n - off, "out %d/%d best %d", h->out_score, h->out_history, h->bestscore);
}

#define DEAD(x) ((x) <= WORST_SCORE)

static int
allowed(int i, int j)
{
    /* which entries the evaluator in use treats as "no transition" (hmm.h: the hard-wired 3- and 5-state evaluators know their
     * topology; the 3-state one tests its skip arcs against TMAT_WORST_SCORE, the generic one tests every arc) */
    if (j < i)
        return 0;
    if (N == 3)
        return j - i <= 1 || (j - i == 2 && tprow[i][j] != 255);
    if (N == 5)
        return j - i <= 2;
    return tprow[i][j] != 255;
}

/* One frame on the real object; oracle per regime.  Returns 0 ok, -1 violation */
static int
frame_step(obj_t *o, int e, const int *cost, int check, const char *hist)
{
    hmm_t *h = &o->h, before;
    int i, j, ret;
    long long oldmax = LLONG_MIN;
    char sb[400], sa[400];
    if (e) {
        hmm_enter(h, enter_score(e), 1000 + o->frame, o->frame);
    }
    before = *h;
    for (i = 0; i < N; i++) {
        senscore[i] = (int16)cost[i];
        if (before.score[i] > oldmax)
            oldmax = before.score[i];
    }
    if (before.out_score > oldmax)
        oldmax = before.out_score;
    ret = hmm_vit_eval(h);
    o->frame++;
    if (!check)
        return 0;
    state_str(&before, sb, sizeof sb);
    state_str(h, sa, sizeof sa);
    /* --- both regimes: nothing positive, nothing better than what existed (costs are >= 0) --- */
    for (i = 0; i <= N; i++) {
        int v = i < N ? h->score[i] : h->out_score;
        if (v > 0 || (long long)v > oldmax) {
            if (DEAD(v) && oldmax <= WORST_SCORE)
                continue; /* dead stays dead; the exact value of a dead score is not state */
            mc_viol("C18/hmm-score-improves-or-positive", hist, "state %d: score %d after the frame, best score before it %lld (costs are non-negative: wrap-around) [%s] -> [%s]",
                    i, v, oldmax, sb, sa);
            return -1;
        }
    }
    if (ret != h->bestscore) {
        mc_viol("C02/hmm-returned-best-differs-from-stored", hist, "hmm_vit_eval returned %d, hmm_bestscore %d", ret, h->bestscore);
        return -1;
    }
    if (REGIME)
        return 0;
    /* --- regime A: one step of the reference recursion from the state before the transition --- */
    {
        long long x[MAXN], best[MAXN + 1], refbest = LLONG_MIN;
        for (i = 0; i < N; i++)
            x[i] = DEAD(before.score[i]) ? LLONG_MIN : (long long)before.score[i] - cost[i];
        for (j = 0; j <= N; j++) {
            best[j] = LLONG_MIN;
            for (i = 0; i <= j && i < N; i++)
                if (allowed(i, j) && x[i] != LLONG_MIN && x[i] - tprow[i][j] > best[j])
                    best[j] = x[i] - tprow[i][j];
        }
        for (j = 0; j <= N; j++) {
            int v = j < N ? h->score[j] : h->out_score;
            int hv = j < N ? h->history[j] : h->out_history;
            if (best[j] == LLONG_MIN) {
                if (j == N && !DEAD(v) && v == before.out_score)
                    continue; /* an exit score nobody can reach this frame may keep its last value (the search reads it only from live HMMs) */
                if (!DEAD(v)) {
                    mc_viol("C02/hmm-unreachable-state-has-score", hist, "state %d cannot be reached this frame but scores %d [%s] -> [%s]", j, v, sb, sa);
                    return -1;
                }
                continue;
            }
            if ((long long)v != best[j]) {
                mc_viol("C02/hmm-state-score-not-the-maximum", hist, "state %d: score %d, maximum over its predecessors %lld [%s] costs %d,%d,%d.. -> [%s]", j, v,
                        best[j], sb, cost[0], N > 1 ? cost[1] : -1, N > 2 ? cost[2] : -1, sa);
                return -1;
            }
            if (best[j] > refbest)
                refbest = best[j];
            {
                int ok = 0;
                for (i = 0; i <= j && i < N; i++)
                    if (allowed(i, j) && x[i] != LLONG_MIN && x[i] - tprow[i][j] == best[j] && before.history[i] == hv)
                        ok = 1;
                if (!ok) {
                    mc_viol("C02/hmm-history-not-of-a-best-predecessor", hist, "state %d: history %d is not the history of any best predecessor [%s] -> [%s]", j, hv, sb,
                            sa);
                    return -1;
                }
            }
        }
        if (refbest != LLONG_MIN && (long long)ret != refbest) {
            mc_viol("C02/hmm-best-score-differs", hist, "returned best %d, maximum of the new scores %lld [%s]", ret, refbest, sa);
            return -1;
        }
    }
    return 0;
}

static long long n_tail_frames;
static int
apply(void *c, void *p, int op, int check, const char *hist)
{
    obj_t *o = p;
    int cost[MAXN], i;
    (void)c;
    if (op == OP_CLEAR) {
        hmm_clear(&o->h);
        return 0;
    }
    if (op == OP_NORM) {
        if (REGIME || DEAD(o->h.bestscore))
            return 1;
        hmm_normalize(&o->h, o->h.bestscore);
        o->h.bestscore = 0;
        if (check)
            for (i = 0; i <= N; i++) {
                int v = i < N ? o->h.score[i] : o->h.out_score;
                /* the exit score may be a stale one from an earlier frame: the search reads it only in the frame it was produced */
                if (v > 0 && i < N) {
                    mc_viol("C18/hmm-score-improves-or-positive", hist, "state %d positive (%d) after normalising by the best score", i, v);
                    return -1;
                }
            }
        if (o->h.out_score > 0)
            o->h.out_score = 0; /* stale exit score: see above */
        return 0;
    }
    if (op == OP_TAIL || op == OP_TAIL0) {
        hmm_t last;
        int k;
        if (!REGIME)
            return 1;
        if (op == OP_TAIL0) {
            /* entry state worst, the others free: needs cost-free self-loops behind the entry state to have a fixpoint at all */
            if (!((N == 3 || N == 5) ? TM == 0 : TM == 0))
                return 1;
        }
        for (i = 0; i < N; i++)
            cost[i] = (op == OP_TAIL || i == 0) ? 32767 : 0;
        for (k = 0; k < TAILLEN; k++) {
            if (frame_step(o, 0, cost, check, hist) < 0)
                return -1;
        }
        n_tail_frames += check ? TAILLEN : 0;
        last = o->h;
        if (frame_step(o, 0, cost, check, hist) < 0)
            return -1;
        if (check && (memcmp(last.score, o->h.score, sizeof(int32) * N) || last.out_score != o->h.out_score)) {
            char sb[400], sa[400];
            state_str(&last, sb, sizeof sb);
            state_str(&o->h, sa, sizeof sa);
            mc_viol("C18/hmm-scores-keep-falling-below-the-floor", hist,
                    "after %d frames of the worst senone score the state still changes: [%s] -> [%s]; a score that falls without bound wraps around", TAILLEN, sb,
                    sa);
            return -1;
        }
        o->frame = 0; /* the tail is a closure operation: the frame tag is reset so that the fixpoint is one state */
        return 0;
    }
    vec_costs(op % NVEC, cost);
    return frame_step(o, op / NVEC, cost, check, hist);
}

int
main(int argc, char **argv)
{
    const char *cas = mc_arg(argc, argv, "--case", NULL);
    mc_bfs_spec sp;
    mc_bfs_result r;
    int depth, i;
    mc_init();
    mc_install_crash_hooks();
    err_set_loglevel(ERR_FATAL);
    REGIME = mc_arg(argc, argv, "--regime", "A")[0] == 'B';
    N = atoi(mc_arg(argc, argv, "--nst", "3"));
    TM = atoi(mc_arg(argc, argv, "--tmat", "0"));
    INIT = atoi(mc_arg(argc, argv, "--init", "0"));
    depth = atoi(mc_arg(argc, argv, "--depth", "3"));
    if (N < 1 || N > MAXN || INIT < 0 || INIT > 3 || fill_tmat(TM) < 0)
        return 2;
    if (REGIME) {
        ALPHA[0] = 0;
        ALPHA[1] = 32767;
        NALPHA = 2;
    } else {
        ALPHA[0] = 0;
        ALPHA[1] = 9;
        ALPHA[2] = 700;
        NALPHA = N <= 3 ? 3 : 2;
        if (N > 3)
            ALPHA[1] = 700;
    }
    for (NVEC = 1, i = 0; i < N; i++)
        NVEC *= NALPHA;
    NENTER = 3;
    NFRAMEOPS = NVEC * NENTER;
    NOPS = NFRAMEOPS + 4;
    tpm[0] = tprow;
    for (i = 0; i < N; i++)
        sseq0[i] = (uint16)i;
    sseq[0] = sseq0;
    ctx = hmm_context_init(N, (uint8 * *const *)tpm, senscore, sseq);
    if (!ctx)
        return 2;
    memset(&sp, 0, sizeof sp);
    sp.nops = NOPS;
    sp.fresh = fresh;
    sp.apply = apply;
    sp.canon = canon;
    sp.release = release;
    sp.opname = opname;
    sp.max_depth = depth;
    sp.max_states = 4000000;
    if (cas) {
        mc_stat("replay_bad", mc_bfs_replay(&sp, cas));
        mc_finish();
        return 0;
    }
    r = mc_bfs_run(&sp);
    if (mc_nsamples >= 8)
        mc_nsamples = 7;
    mc_sample("regime %s, %d emitting states, transition matrix %d, start state %d: %lld states, %lld transitions to depth %d, %lld closure frames", REGIME ? "B (floor)" : "A (optimum)",
              N, TM, INIT, r.states, r.transitions, depth, n_tail_frames);
    mc_stat("states", r.states);
    mc_stat("transitions", r.transitions);
    mc_stat("evaluations", r.transitions);
    mc_stat("nontrivial", r.transitions);
    mc_stat("hmm_closure_frames", n_tail_frames);
    mc_max("max_depth", r.max_depth_seen);
    mc_flag("exhaustive", !mc_capped);
    hmm_context_free(ctx);
    mc_finish();
    return 0;
}
