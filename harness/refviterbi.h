/* refviterbi.h -- reference Viterbi for C02: token passing over the explicitly expanded network.
 *
 * The network is expanded from the arc list of the grammar the search is actually running on (after
 * silence/alternate additions and closure; those transformations are C13's business): one HMM unit per
 * (word arc, phone position, context variant), triphone senone sequences taken straight from the model
 * definition (bin_mdef_phone_id_nearest), no lexicon tree, no node sharing across words, no history-table
 * domination, no beams.  Context conventions are the ones documented in fsg_lextree.c / fsg_search.c:
 *   - fillers are context-independent and present SIL to their neighbours;
 *   - a one-phone word is modelled with SIL as right context and may be followed by anything;
 *   - a multi-phone word's last phone is modelled for one right context rc and may only be followed by a
 *     word whose first phone (as presented) is rc; at the end of the utterance any rc the destination
 *     state offers (first phones of words leaving it, directly or over one null arc, and SIL) may be used;
 *   - penalties: wip + pip on entering a word, pip on every further phone, the arc's log-probability
 *     (>> SENSCR_SHIFT) once per word, a null arc costs its log-probability (>> SENSCR_SHIFT), and only
 *     one null arc is taken between two words (the grammar is closed).
 * All arithmetic is in the decoder's integer units, so with open beams equality is exact.
 */
#ifndef REFVITERBI_H
#define REFVITERBI_H
#include <soundswallower/bin_mdef.h>
#include <soundswallower/dict.h>
#include <soundswallower/hmm.h>
#include <soundswallower/tmat.h>

#define RV_NEG (-(1 << 29))
#define RV_MAXARC 512
#define RV_MAXCI 48
#define RV_MAXPH 6
#define RV_ANY RV_MAXCI /* right context "any" */
#define RV_MAXUNIT 16384
#define RV_MAXS 64

typedef struct {
    int from, to, lp; /* lp = arc log-probability >> SENSCR_SHIFT */
    int wid; /* dictionary word id, -1 for a null arc */
    int filler, npron;
    int ci[RV_MAXPH];
    int first_ext, last_ext; /* phones presented to neighbours */
    int allowed_ef; /* -1 = may end anywhere, else only in this frame (constrained re-scoring) */
    /* unit indices */
    int u_first[RV_MAXCI]; /* first phone, by left context (one-phone words: the only unit; fillers: index 0 only) */
    int u_int[RV_MAXPH]; /* internal phones 1..npron-2 */
    int u_last[RV_MAXCI]; /* last phone of a multi-phone word, by right context (-1 = context not offered) */
} rv_arc;

typedef struct {
    int arc, pos, tmat, ctx; /* ctx: the left (first phone) or right (last phone) context this unit models */
    int sen[HMM_MAX_NSTATE];
    int sc[HMM_MAX_NSTATE];
    int in; /* entry score pending for the next frame */
    int out;
} rv_unit;

typedef struct {
    int n_state, start, final, narc, n_ci, sil, wip, pip, n_emit, nunit;
    rv_arc arc[RV_MAXARC];
    unsigned char rc_ok[RV_MAXS][RV_MAXCI]; /* right contexts offered by each state */
    rv_unit *unit;
    bin_mdef_t *mdef;
    uint8 ***tp;
    long long cells; /* (unit x hmm state x frame) cells evaluated */
    long long units_built;
} rv_net;

static void
rv_set_senones(rv_net *N, rv_unit *u, int b, int l, int r, int pos)
{
    int pid = pos < 0 ? b : bin_mdef_phone_id_nearest(N->mdef, b, l, r, pos), i;
    int ssid = bin_mdef_pid2ssid(N->mdef, pid);
    for (i = 0; i < N->n_emit; i++)
        u->sen[i] = N->mdef->sseq[ssid][i];
    u->tmat = bin_mdef_pid2tmatid(N->mdef, b);
}

static int
rv_new_unit(rv_net *N, int arc, int pos)
{
    rv_unit *u;
    if (N->nunit == RV_MAXUNIT)
        return -1;
    u = &N->unit[N->nunit];
    memset(u, 0, sizeof *u);
    u->arc = arc;
    u->pos = pos;
    return N->nunit++;
}

/* compute the context sets and allocate the units; arcs must be filled in (from,to,lp,wid,filler,npron,ci) */
static int
rv_build(rv_net *N)
{
    int i, s, a, c, p;
    memset(N->rc_ok, 0, sizeof N->rc_ok);
    for (i = 0; i < N->narc; i++) {
        rv_arc *A = &N->arc[i];
        if (A->wid < 0)
            continue;
        A->first_ext = A->filler ? N->sil : A->ci[0];
        A->last_ext = A->filler ? N->sil : A->ci[A->npron - 1];
        N->rc_ok[A->from][A->first_ext] = 1;
    }
    for (s = 0; s < N->n_state; s++)
        N->rc_ok[s][N->sil] = 1;
    {
        static unsigned char add[RV_MAXS][RV_MAXCI];
        memset(add, 0, sizeof add);
        for (i = 0; i < N->narc; i++)
            if (N->arc[i].wid < 0)
                for (c = 0; c < N->n_ci; c++)
                    add[N->arc[i].from][c] |= N->rc_ok[N->arc[i].to][c];
        for (s = 0; s < N->n_state; s++)
            for (c = 0; c < N->n_ci; c++)
                N->rc_ok[s][c] |= add[s][c];
    }
    if (!N->unit)
        N->unit = malloc(sizeof(rv_unit) * RV_MAXUNIT);
    N->nunit = 0;
    for (a = 0; a < N->narc; a++) {
        rv_arc *A = &N->arc[a];
        if (A->wid < 0)
            continue;
        for (c = 0; c < RV_MAXCI; c++)
            A->u_first[c] = A->u_last[c] = -1;
        if (A->filler) {
            int u = rv_new_unit(N, a, 0);
            if (u < 0)
                return -1;
            rv_set_senones(N, &N->unit[u], A->ci[0], 0, 0, -1);
            A->u_first[0] = u;
        } else if (A->npron == 1) {
            for (c = 0; c < N->n_ci; c++) {
                int u = rv_new_unit(N, a, 0);
                if (u < 0)
                    return -1;
                rv_set_senones(N, &N->unit[u], A->ci[0], c, N->sil, WORD_POSN_SINGLE);
                N->unit[u].ctx = c;
                A->u_first[c] = u;
            }
        } else {
            for (c = 0; c < N->n_ci; c++) {
                int u = rv_new_unit(N, a, 0);
                if (u < 0)
                    return -1;
                rv_set_senones(N, &N->unit[u], A->ci[0], c, A->ci[1], WORD_POSN_BEGIN);
                N->unit[u].ctx = c;
                A->u_first[c] = u;
            }
            for (p = 1; p < A->npron - 1; p++) {
                int u = rv_new_unit(N, a, p);
                if (u < 0)
                    return -1;
                rv_set_senones(N, &N->unit[u], A->ci[p], A->ci[p - 1], A->ci[p + 1], WORD_POSN_INTERNAL);
                A->u_int[p] = u;
            }
            for (c = 0; c < N->n_ci; c++)
                if (N->rc_ok[A->to][c]) {
                    int u = rv_new_unit(N, a, A->npron - 1);
                    if (u < 0)
                        return -1;
                    rv_set_senones(N, &N->unit[u], A->ci[A->npron - 1], A->ci[A->npron - 2], c, WORD_POSN_END);
                    N->unit[u].ctx = c;
                    A->u_last[c] = u;
                }
        }
    }
    N->units_built += N->nunit;
    return 0;
}

/* one left-to-right HMM step: sc[] holds the scores before this frame's emission, `in` competes with sc[0];
 * returns the exit score of this frame */
static int
rv_hmm_step(rv_net *N, rv_unit *u, const int16 *senscr)
{
    int ne = N->n_emit, e[HMM_MAX_NSTATE], nx[HMM_MAX_NSTATE], i, j, out = RV_NEG;
    uint8 **tp = N->tp[u->tmat];
    if (u->in > u->sc[0])
        u->sc[0] = u->in;
    u->in = RV_NEG;
    for (i = 0; i < ne; i++)
        e[i] = u->sc[i] <= RV_NEG ? RV_NEG : u->sc[i] - senscr[u->sen[i]];
    for (j = 0; j < ne; j++)
        nx[j] = RV_NEG;
    for (i = 0; i < ne; i++) {
        if (e[i] <= RV_NEG)
            continue;
        for (j = i; j <= ne; j++) {
            int t = tp[i][j];
            if (t == 255)
                continue; /* no such transition */
            if (j == ne) {
                if (e[i] - t > out)
                    out = e[i] - t;
            } else if (e[i] - t > nx[j])
                nx[j] = e[i] - t;
        }
    }
    for (j = 0; j < ne; j++)
        u->sc[j] = nx[j];
    N->cells += ne;
    return out;
}

typedef struct {
    int best; /* best complete score (final state, last frame), RV_NEG if none */
    int any_exit_last_frame;
    int best_any_state; /* best score at the last frame over all states (partial results) */
} rv_result;

/* word-exit table of one frame: dense cells H[s][lc][rc] plus the list of cells in use */
#define RV_MAXCELL 8192
typedef struct {
    int h[RV_MAXS][RV_MAXCI][RV_MAXCI + 1];
    int ncell;
    struct {
        short s, lc, rc;
    } cell[RV_MAXCELL];
} rv_hist;

static void
rv_hist_clear(rv_hist *H)
{
    int i;
    for (i = 0; i < H->ncell; i++)
        H->h[H->cell[i].s][H->cell[i].lc][H->cell[i].rc] = RV_NEG;
    H->ncell = 0;
}

static void
rv_hist_put(rv_hist *H, int s, int lc, int rc, int x)
{
    if (H->h[s][lc][rc] <= RV_NEG) {
        if (H->ncell == RV_MAXCELL)
            return;
        H->cell[H->ncell].s = (short)s;
        H->cell[H->ncell].lc = (short)lc;
        H->cell[H->ncell].rc = (short)rc;
        H->ncell++;
    }
    if (x > H->h[s][lc][rc])
        H->h[s][lc][rc] = x;
}

static void
rv_hist_init(rv_hist *H)
{
    int s, lc, rc;
    for (s = 0; s < RV_MAXS; s++)
        for (lc = 0; lc < RV_MAXCI; lc++)
            for (rc = 0; rc <= RV_ANY; rc++)
                H->h[s][lc][rc] = RV_NEG;
    H->ncell = 0;
}

/* one null step: candidates are computed from the values before the step */
static void
rv_null_step(rv_net *N, rv_hist *H)
{
    static struct {
        short s, lc, rc;
        int x;
    } cand[RV_MAXCELL];
    int nc = 0, i, a, n0 = H->ncell;
    for (i = 0; i < n0; i++) {
        int s = H->cell[i].s, lc = H->cell[i].lc, rc = H->cell[i].rc, x = H->h[s][lc][rc];
        for (a = 0; a < N->narc; a++)
            if (N->arc[a].wid < 0 && N->arc[a].from == s && nc < RV_MAXCELL) {
                cand[nc].s = (short)N->arc[a].to;
                cand[nc].lc = (short)lc;
                cand[nc].rc = (short)rc;
                cand[nc].x = x + N->arc[a].lp;
                nc++;
            }
    }
    for (i = 0; i < nc; i++)
        rv_hist_put(H, cand[i].s, cand[i].lc, cand[i].rc, cand[i].x);
}

static void
rv_word_entries(rv_net *N, rv_hist *H)
{
    int i, a;
    for (i = 0; i < H->ncell; i++) {
        int s = H->cell[i].s, lc = H->cell[i].lc, rc = H->cell[i].rc, x = H->h[s][lc][rc], u;
        for (a = 0; a < N->narc; a++) {
            rv_arc *A = &N->arc[a];
            int e;
            if (A->wid < 0 || A->from != s || (rc != RV_ANY && rc != A->first_ext))
                continue;
            e = x + N->wip + N->pip + (A->npron == 1 ? A->lp : 0);
            u = A->filler ? A->u_first[0] : A->u_first[lc];
            if (e > N->unit[u].in)
                N->unit[u].in = e;
        }
    }
}

static rv_result
rv_viterbi(rv_net *N, int T, const int16 *const *senscr_by_frame)
{
    static rv_hist H;
    static int H_init;
    rv_result R = { RV_NEG, 0, RV_NEG };
    int f, u, i;

    if (!H_init) {
        rv_hist_init(&H);
        H_init = 1;
    }
    for (u = 0; u < N->nunit; u++) {
        for (i = 0; i < HMM_MAX_NSTATE; i++)
            N->unit[u].sc[i] = RV_NEG;
        N->unit[u].in = N->unit[u].out = RV_NEG;
    }
    rv_hist_clear(&H);
    rv_hist_put(&H, N->start, N->sil, RV_ANY, 0);
    rv_null_step(N, &H);
    if (T == 0)
        return R;
    rv_word_entries(N, &H);
    for (f = 0; f < T; f++) {
        const int16 *ss = senscr_by_frame[f];
        /* evaluate */
        for (u = 0; u < N->nunit; u++) {
            rv_unit *U = &N->unit[u];
            int active = U->in > RV_NEG;
            for (i = 0; i < N->n_emit && !active; i++)
                active = U->sc[i] > RV_NEG;
            U->out = active ? rv_hmm_step(N, U, ss) : RV_NEG;
        }
        /* propagate inside words, collect word exits */
        rv_hist_clear(&H);
        for (u = 0; u < N->nunit; u++) {
            rv_unit *U = &N->unit[u];
            rv_arc *A = &N->arc[U->arc];
            if (U->out <= RV_NEG)
                continue;
            if (U->pos == A->npron - 1) {
                /* word exit */
                int rcx = RV_ANY;
                if (A->allowed_ef >= 0 && A->allowed_ef != f)
                    continue;
                if (A->npron > 1)
                    rcx = U->ctx;
                rv_hist_put(&H, A->to, A->last_ext, rcx, U->out);
            } else if (U->pos + 1 == A->npron - 1) {
                int c;
                for (c = 0; c < N->n_ci; c++)
                    if (A->u_last[c] >= 0 && U->out + N->pip + A->lp > N->unit[A->u_last[c]].in)
                        N->unit[A->u_last[c]].in = U->out + N->pip + A->lp;
            } else {
                rv_unit *V = &N->unit[A->u_int[U->pos + 1]];
                if (U->out + N->pip > V->in)
                    V->in = U->out + N->pip;
            }
        }
        rv_null_step(N, &H);
        if (f == T - 1) {
            for (i = 0; i < H.ncell; i++) {
                int x = H.h[H.cell[i].s][H.cell[i].lc][H.cell[i].rc];
                R.any_exit_last_frame = 1;
                if (x > R.best_any_state)
                    R.best_any_state = x;
                if (H.cell[i].s == N->final && x > R.best)
                    R.best = x;
            }
        } else
            rv_word_entries(N, &H);
    }
    return R;
}
#endif
