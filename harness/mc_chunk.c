/* H8 mc_chunk -- C07: decoding results do not depend on chunking or buffering mode.
 * Deviation-bounded E-ENUM: the reference run is ONE streaming decoder_process_int16 call; a plan deviates
 * from it by cuts (from a menu of sample offsets around every internal threshold), by buffering a chunk
 * without search, by passing a chunk through the float32 entry point, by a zero-length call, or by asking
 * for a partial hypothesis / segmentation / lattice / alignment after a chunk.  Real front end, real
 * scorer, channel normalisation set to a fixed vector before every utterance.  DESIGN.md H8.
 *
 * usage: mc_chunk --audio 0..3 --gram 0..1 --dev K [--menu full|small|frames] [--subsets 1] [--firstcut 1] [--uniform 1] [--shard i/n] [--case "<plan>"]
 */
#include "../engine/mc.h"
#include <soundswallower/acmod.h>
#include <soundswallower/alignment.h>
#include <soundswallower/decoder.h>
#include <soundswallower/err.h>
#include <soundswallower/lattice.h>
#include <soundswallower/search_module.h>

#ifndef MODELDIR
#define MODELDIR "/repo/model/en-us"
#endif
#ifndef DATADIR
#define DATADIR "/repo/tests/data"
#endif

static const char *DICT_TEXT = "go G OW\nforward F AO R W ER D\nten T EH N\nmeters M IY T ER Z\nstop S T AA P\n";
static char DICT_PATH[512];
static decoder_t *D;
static const char *CMN_FIXED = "41.00,-5.29,-0.12,5.09,2.48,-4.07,-1.37,-1.78,-5.08,-2.05,-6.45,-1.42,1.17";
static const char *GRAMS[2] = { "#JSGF V1.0; grammar g; public <s> = (go | forward | ten | meters | stop)+;", NULL /* alignment text */ };
static const char *ALIGN_TEXT = "go forward";

static int16 AUD[60000];
static float32 AUDF[60000];
static int16 AUD_ORIG[60000];
static size_t NAUD_ALL, N; /* N = samples of the selected excerpt */
static int GRAM;

/* ---------- feature fingerprint of every frame the first pass scores ---------- */
#define MAXFR 1024
static uint64_t FEAT_HASH[MAXFR];
static int NFEAT_HASH, RECORD_FEAT;
static int NEWFRAMES; /* frames scored for the first time since the counter was last cleared */
static int P_C03;     /* --props C03: only the frame accounting of the processing calls is judged */
int16 const *__real_acmod_score(acmod_t *acmod, int *inout_frame_idx);
int16 const *
__wrap_acmod_score(acmod_t *acmod, int *inout_frame_idx)
{
    int16 const *r = __real_acmod_score(acmod, inout_frame_idx);
    if (RECORD_FEAT && inout_frame_idx && *inout_frame_idx >= 0 && *inout_frame_idx < MAXFR) {
        int fr = *inout_frame_idx, idx;
        mfcc_t **fv;
        int tmp = fr;
        fv = acmod_get_frame(acmod, &tmp);
        if (fv) {
            mc_h128 h = mc_hash(fv[0], sizeof(mfcc_t) * feat_dimension(acmod->fcb));
            FEAT_HASH[fr] = h.a ^ h.b;
            if (fr + 1 > NFEAT_HASH) {
                NEWFRAMES += fr + 1 - NFEAT_HASH;
                NFEAT_HASH = fr + 1;
            }
        }
        (void)idx;
    }
    return r;
}

/* ---------- plans ---------- */
#define MAXCH 16
enum { Q_HYP = 1, Q_SEG = 2, Q_LAT = 4, Q_ALIGN = 8 };
typedef struct {
    int ncut;
    size_t cut[MAXCH]; /* ascending sample offsets in (0, N) */
    unsigned char nosearch[MAXCH + 1], isfloat[MAXCH + 1], zero_before[MAXCH + 1], query[MAXCH + 1];
    size_t fullutt_len; /* > 0: the first fullutt_len samples as ONE full-utterance call; only the number of frames is compared, with a
                           one-call streaming run of the same samples (full-utterance mode normalises differently by design) */
    size_t uniform; /* > 0: the whole utterance in equal chunks of this many samples (modifiers of chunk 0 apply to all; a query follows every 16th chunk) */
} plan_t;

static void
plan_desc(const plan_t *p, char *buf, size_t n)
{
    size_t o = snprintf(buf, n, "audio=%zu gram=%d plan:", N, GRAM), start = 0;
    int i;
    if (p->uniform) {
        snprintf(buf + o, n - o, " uniform=%zu%s%s", p->uniform, p->isfloat[0] ? ":float" : "", p->query[0] & Q_HYP ? ":hyp" : "");
        return;
    }
    if (p->fullutt_len) {
        snprintf(buf + o, n - o, " fullutt=%zu%s", p->fullutt_len, p->isfloat[0] ? ":float" : "");
        return;
    }
    for (i = 0; i <= p->ncut; i++) {
        size_t end = i < p->ncut ? p->cut[i] : N;
        o += snprintf(buf + o, n - o, " %s[%zu,%zu)%s%s%s%s%s%s", p->zero_before[i] ? "zero+" : "", start, end, p->nosearch[i] ? ":nosearch" : "",
                      p->isfloat[i] ? ":float" : "", p->query[i] & Q_HYP ? ":hyp" : "", p->query[i] & Q_SEG ? ":seg" : "", p->query[i] & Q_LAT ? ":lattice" : "",
                      p->query[i] & Q_ALIGN ? ":alignment" : "");
        start = end;
    }
}

static int
plan_parse(const char *s, plan_t *p)
{
    const char *q = strstr(s, "plan:");
    memset(p, 0, sizeof *p);
    if (!q)
        return -1;
    q += 5;
    if (strncmp(q, " fullutt=", 9) == 0) {
        p->fullutt_len = (size_t)atol(q + 9);
        p->isfloat[0] = strstr(q, ":float") != NULL;
        return p->fullutt_len > 0 ? 0 : -1;
    }
    if (strncmp(q, " uniform=", 9) == 0) {
        p->uniform = (size_t)atol(q + 9);
        p->isfloat[0] = strstr(q, ":float") != NULL;
        p->query[0] = strstr(q, ":hyp") ? Q_HYP : 0;
        return p->uniform > 0 ? 0 : -1;
    }
    while (*q) {
        size_t a, b;
        int i = p->ncut;
        char mods[128] = "";
        while (*q == ' ')
            q++;
        if (!*q)
            break;
        if (strncmp(q, "zero+", 5) == 0) {
            p->zero_before[i] = 1;
            q += 5;
        }
        if (sscanf(q, "[%zu,%zu)%127[^ ]", &a, &b, mods) < 2)
            return -1;
        p->nosearch[i] = strstr(mods, ":nosearch") != NULL;
        p->isfloat[i] = strstr(mods, ":float") != NULL;
        p->query[i] = (strstr(mods, ":hyp") ? Q_HYP : 0) | (strstr(mods, ":seg") ? Q_SEG : 0) | (strstr(mods, ":lattice") ? Q_LAT : 0)
            | (strstr(mods, ":alignment") ? Q_ALIGN : 0);
        if (b < N) {
            if (p->ncut == MAXCH)
                return -1;
            p->cut[p->ncut++] = b;
        }
        while (*q && *q != ' ')
            q++;
    }
    return 0;
}

/* ---------- digest ---------- */
typedef struct {
    char text[16384];
    int frames_accounted, n_frames;
    int nfeat;
    uint64_t feat[MAXFR];
} digest_t;

static void
collect(digest_t *g, int accounted)
{
    int32 sc = 0;
    const char *h = decoder_hyp(D, &sc);
    seg_iter_t *it;
    alignment_t *al;
    size_t o, n = sizeof g->text;
    o = snprintf(g->text, n, "hyp=%s score=%d segs=", h ? h : "NULL", sc);
    for (it = decoder_seg_iter(D); it; it = seg_iter_next(it)) {
        int sf, ef;
        int32 a, l;
        seg_iter_frames(it, &sf, &ef);
        seg_iter_prob(it, &a, &l);
        if (o + 80 < n)
            o += snprintf(g->text + o, n - o, "[%s %d-%d %d %d]", seg_iter_word(it), sf, ef, a, l);
    }
    al = decoder_alignment(D);
    if (al) {
        alignment_iter_t *w, *p, *s;
        for (w = alignment_words(al); w; w = alignment_iter_next(w)) {
            int st, du, scr = alignment_iter_seg(w, &st, &du);
            if (o + 80 < n)
                o += snprintf(g->text + o, n - o, " W(%s %d+%d %d", alignment_iter_name(w), st, du, scr);
            for (p = alignment_iter_children(w); p; p = alignment_iter_next(p)) {
                scr = alignment_iter_seg(p, &st, &du);
                if (o + 80 < n)
                    o += snprintf(g->text + o, n - o, " P(%s %d+%d %d", alignment_iter_name(p), st, du, scr);
                for (s = alignment_iter_children(p); s; s = alignment_iter_next(s)) {
                    scr = alignment_iter_seg(s, &st, &du);
                    if (o + 48 < n)
                        o += snprintf(g->text + o, n - o, " %d+%d:%d", st, du, scr);
                }
                if (o + 2 < n)
                    o += snprintf(g->text + o, n - o, ")");
            }
            if (o + 2 < n)
                o += snprintf(g->text + o, n - o, ")");
        }
    } else if (o + 16 < n)
        o += snprintf(g->text + o, n - o, " alignment=none");
    g->frames_accounted = accounted;
    g->n_frames = decoder_n_frames(D);
    g->nfeat = NFEAT_HASH;
    memcpy(g->feat, FEAT_HASH, sizeof(uint64_t) * NFEAT_HASH);
}

static int
set_grammar(void)
{
    if (GRAM == 0)
        return decoder_set_jsgf_string(D, GRAMS[0]);
    return decoder_set_align_text(D, ALIGN_TEXT);
}

/* --fresh 1: every plan runs on a newly created decoder.  Buffers that grow during an utterance stay grown for the
 * life of a decoder, so only a fresh one meets their initial sizes. */
static int FRESH, COMPALLSEN;
static decoder_t *
new_decoder(void)
{
    config_t *cfg = config_init(NULL);
    decoder_t *d;
    config_set_str(cfg, "hmm", MODELDIR);
    config_set_str(cfg, "dict", DICT_PATH);
    config_set_str(cfg, "loglevel", "FATAL");
    if (COMPALLSEN)
        config_set_bool(cfg, "compallsen", 1);
    d = decoder_init(cfg);
    return d;
}

static int
run_plan(const plan_t *p, digest_t *g, const char *cd)
{
    int i, acc = 0, rc, before;
    size_t start = 0;
    if (FRESH) {
        if (D)
            decoder_free(D);
        D = new_decoder();
        if (!D || set_grammar() < 0) {
            mc_viol("harness/decoder-init-failed", cd, "could not create a decoder");
            return -1;
        }
    }
    if (decoder_set_cmn(D, CMN_FIXED) < 0 || decoder_start_utt(D) < 0) {
        mc_viol("C07/start-failed", cd, "could not start the utterance");
        return -1;
    }
    NFEAT_HASH = 0;
    RECORD_FEAT = 1;
    if (p->uniform) {
        int k = 0;
        for (start = 0; start < N; start += p->uniform, k++) {
            size_t len = N - start < p->uniform ? N - start : p->uniform;
            NEWFRAMES = 0;
            rc = p->isfloat[0] ? decoder_process_float32(D, AUDF + start, len, 0, 0) : decoder_process_int16(D, AUD + start, len, 0, 0);
            if (rc < 0)
                goto procfail;
            if (P_C03 && rc != NEWFRAMES)
                goto countfail;
            acc += rc;
            if ((p->query[0] & Q_HYP) && k % 16 == 15) {
                int32 sc;
                RECORD_FEAT = 0;
                (void)decoder_hyp(D, &sc);
                RECORD_FEAT = 1;
            }
        }
    }
    for (i = 0; !p->uniform && i <= p->ncut; i++) {
        size_t end = i < p->ncut ? p->cut[i] : N;
        if (p->zero_before[i]) {
            rc = decoder_process_int16(D, AUD + start, 0, 0, 0);
            if (rc < 0)
                goto procfail;
            acc += rc;
        }
        NEWFRAMES = 0;
        if (p->isfloat[i])
            rc = decoder_process_float32(D, AUDF + start, end - start, p->nosearch[i], 0);
        else
            rc = decoder_process_int16(D, AUD + start, end - start, p->nosearch[i], 0);
        if (rc < 0)
            goto procfail;
        if (P_C03 && rc != NEWFRAMES)
            goto countfail;
        acc += rc;
        RECORD_FEAT = 0; /* second-pass and lattice queries do not belong to the first-pass fingerprint */
        if (p->query[i] & Q_HYP) {
            int32 sc;
            (void)decoder_hyp(D, &sc);
        }
        if (p->query[i] & Q_SEG) {
            seg_iter_t *it;
            for (it = decoder_seg_iter(D); it; it = seg_iter_next(it))
                (void)seg_iter_word(it);
        }
        if (p->query[i] & Q_LAT)
            (void)decoder_lattice(D);
        if (p->query[i] & Q_ALIGN)
            (void)decoder_alignment(D);
        RECORD_FEAT = 1;
        start = end;
    }
    before = decoder_n_frames(D);
    if (decoder_end_utt(D) < 0) {
        mc_viol("C07/end-failed", cd, "decoder_end_utt failed");
        return -1;
    }
    /* frames searched inside end_utt: count them from the fingerprint (every searched frame is scored once) */
    RECORD_FEAT = 0;
    (void)before;
    collect(g, acc);
    return 0;
procfail:
    mc_viol(P_C03 ? "C03/process-failed" : "C07/process-failed", cd, "a processing call returned %d", rc);
    return -1;
countfail:
    /* decoder.h: the processing calls return "the number of frames of data searched" */
    mc_viol("C03/frames-returned-by-a-call-differ-from-frames-searched", cd, "a processing call returned %d, %d frames were searched during it", rc, NEWFRAMES);
    return -1;
}

static digest_t REF;

/* frames searched for the first L samples: one streaming call against one full-utterance call */
static int
run_fullutt(const plan_t *p, const char *cd)
{
    size_t L = p->fullutt_len;
    int k, nf[2], fr[2];
    for (k = 0; k < 2; k++) {
        int rc;
        if (decoder_set_cmn(D, CMN_FIXED) < 0 || decoder_start_utt(D) < 0) {
            mc_viol("C07/start-failed", cd, "could not start the utterance");
            return -1;
        }
        NFEAT_HASH = 0;
        RECORD_FEAT = 1;
        rc = p->isfloat[0] ? decoder_process_float32(D, AUDF, L, 0, k) : decoder_process_int16(D, AUD, L, 0, k);
        if (rc < 0 || decoder_end_utt(D) < 0) {
            mc_viol("C07/process-failed", cd, "%s processing of %zu samples failed", k ? "full-utterance" : "streaming", L);
            return -1;
        }
        RECORD_FEAT = 0;
        nf[k] = NFEAT_HASH;
        fr[k] = decoder_n_frames(D);
    }
    if (nf[0] != nf[1] || fr[0] != fr[1]) {
        mc_viol("C07/number-of-frames-searched-differs", cd, "%zu samples: %d frames searched in one streaming call (decoder_n_frames %d), %d in one full-utterance call (%d)",
                L, nf[0], fr[0], nf[1], fr[1]);
        return -1;
    }
    return 1;
}

static int
compare(const digest_t *g, const char *cd)
{
    int i;
    if (g->nfeat != REF.nfeat) {
        mc_viol("C07/number-of-frames-searched-differs", cd, "%d frames were searched, the one-call run searched %d", g->nfeat, REF.nfeat);
        return -1;
    }
    for (i = 0; i < g->nfeat; i++)
        if (g->feat[i] != REF.feat[i]) {
            mc_viol("C07/feature-vectors-differ", cd, "the feature vector of frame %d differs from the one-call run (first difference)", i);
            return -1;
        }
    if (g->n_frames != REF.n_frames) {
        mc_viol("C07/number-of-frames-searched-differs", cd, "decoder_n_frames %d, one-call run %d", g->n_frames, REF.n_frames);
        return -1;
    }
    if (strcmp(g->text, REF.text) != 0) {
        /* show the first differing stretch */
        size_t k = 0;
        while (g->text[k] && g->text[k] == REF.text[k])
            k++;
        if (k > 60)
            k -= 60;
        else
            k = 0;
        mc_viol("C07/result-differs", cd, "result differs from the one-call run near: ...%.200s | one call: ...%.200s", g->text + k, REF.text + k);
        return -1;
    }
    return 0;
}

/* ---------- plan enumeration ---------- */
static size_t MENU[48];
static int NMENU;
static plan_t *PLANS;
static long NPLANS, PLANCAP;

static void
add_plan(const plan_t *p)
{
    if (NPLANS == PLANCAP) {
        PLANCAP = PLANCAP ? PLANCAP * 2 : 4096;
        PLANS = realloc(PLANS, sizeof(plan_t) * PLANCAP);
    }
    PLANS[NPLANS++] = *p;
}

/* all ways to spend `left` modifier deviations on the chunks of plan p, modifiers numbered >= from */
static void
spend(plan_t *p, int left, int from)
{
    int nmod = 7 * (p->ncut + 1), m;
    add_plan(p);
    if (!left)
        return;
    for (m = from; m < nmod; m++) {
        int ch = m / 7, kind = m % 7;
        plan_t q = *p;
        switch (kind) {
        case 0: q.nosearch[ch] = 1; break;
        case 1: q.isfloat[ch] = 1; break;
        case 2: q.zero_before[ch] = 1; break;
        case 3: q.query[ch] |= Q_HYP; break;
        case 4: q.query[ch] |= Q_SEG; break;
        case 5: q.query[ch] |= Q_LAT; break;
        default: q.query[ch] |= Q_ALIGN; break;
        }
        spend(&q, left - 1, m + 1);
    }
}

static void
cuts(plan_t *p, int from, int left_total)
{
    int i;
    /* this cut set, with the remaining budget spent on modifiers (spend() adds the bare plan too) */
    spend(p, left_total, 0);
    if (!left_total || p->ncut == MAXCH)
        return;
    for (i = from; i < NMENU; i++) {
        plan_t q = *p;
        q.cut[q.ncut++] = MENU[i];
        cuts(&q, i + 1, left_total - 1);
    }
}

static int
cmp_size(const void *a, const void *b)
{
    size_t x = *(const size_t *)a, y = *(const size_t *)b;
    return x < y ? -1 : x > y;
}

static void
build_menu(const char *kind)
{
    static const long full[] = { 1, 2, 159, 160, 161, 409, 410, 411, 570, 571, 480, 1119, 1120, 1121, 128 * 160 - 1, 128 * 160, 128 * 160 + 1, 128 * 160 + 410,
                                 256 * 160 - 1, 256 * 160, 256 * 160 + 1, 256 * 160 + 410, -1 /* N-1 */, -2 /* N/2 */ };
    static const long small[] = { 1, 160, 409, 410, 411, 571, 1120, 128 * 160, 128 * 160 + 1, 256 * 160, -1, -2 };
    /* "frames": the smallest sample count that completes exactly f cepstral frames (410 + (f-1)*160), for every f around
     * the sizes of the cepstral ring and of the feature buffer (128, growing by doubling) and the dynamic-feature window */
    static long frames[40];
    const long *m = strcmp(kind, "small") == 0 ? small : strcmp(kind, "frames") == 0 ? frames : full;
    int n = strcmp(kind, "small") == 0 ? (int)(sizeof small / sizeof *small) : (int)(sizeof full / sizeof *full), i, k = 0;
    if (m == frames) {
        int f;
        n = 0;
        for (f = 124; f <= 136; f++)
            frames[n++] = 410 + (f - 1) * 160;
        for (f = 252; f <= 264; f++)
            frames[n++] = 410 + (f - 1) * 160;
    }
    for (i = 0; i < n; i++) {
        long v = m[i] == -1 ? (long)N - 1 : m[i] == -2 ? (long)N / 2 : m[i];
        int j, dup = 0;
        if (v <= 0 || (size_t)v >= N)
            continue;
        for (j = 0; j < k; j++)
            if (MENU[j] == (size_t)v)
                dup = 1;
        if (!dup)
            MENU[k++] = (size_t)v;
    }
    qsort(MENU, k, sizeof(size_t), cmp_size);
    NMENU = k;
}

static long long CUR_IDX;
/* One decoder serves many plans, as an application's decoder serves many utterances: a case is described together with the plan that ran
 * before it on the same decoder ("<plan> <<after>> <previous plan>") and replayed after it, so that state carried from one utterance into
 * the next is part of the replayable case. */
static char PREV_DESC[1200];
static int
run_index(long long idx, void *arg)
{
    static digest_t g;
    char cd0[1200], cd[2500];
    int rc;
    (void)arg;
    plan_desc(&PLANS[idx], cd0, sizeof cd0);
    if (PREV_DESC[0] && !FRESH)
        snprintf(cd, sizeof cd, "%s <<after>> %s", cd0, PREV_DESC);
    else
        snprintf(cd, sizeof cd, "%s", cd0);
    snprintf(PREV_DESC, sizeof PREV_DESC, "%s", cd0);
    CUR_IDX = idx;
    mc_case_begin(idx, cd);
    if (PLANS[idx].fullutt_len)
        return run_fullutt(&PLANS[idx], cd);
    if (run_plan(&PLANS[idx], &g, cd) < 0)
        return -1;
    if (P_C03) {
        /* all calls together, plus what decoder_end_utt searched, are the frames of the utterance */
        if (g.nfeat != REF.nfeat || g.n_frames != REF.n_frames) {
            mc_viol("C03/frames-do-not-add-up", cd, "%d frames searched in total (decoder_n_frames %d), the one-call run has %d (%d)", g.nfeat, g.n_frames, REF.nfeat,
                    REF.n_frames);
            return -1;
        }
    } else if (compare(&g, cd) < 0)
        return -1;
    rc = PLANS[idx].ncut > 0 || PLANS[idx].uniform > 0 || idx > 0;
    return rc;
}

int
main(int argc, char **argv)
{
    static const size_t LEN[4] = { 4800, 11200, 22400, 0 };
    const char *cas = mc_arg(argc, argv, "--case", NULL);
    int audio = atoi(mc_arg(argc, argv, "--audio", "0")), dev = atoi(mc_arg(argc, argv, "--dev", "2")), shard = 0, nshard = 1, complete;
    FILE *fp;
    size_t i;
    char cd[256];
    plan_t p0;

    mc_init();
    mc_install_crash_hooks();
    err_set_loglevel(ERR_FATAL);
    sscanf(mc_arg(argc, argv, "--shard", "0/1"), "%d/%d", &shard, &nshard);
    GRAM = atoi(mc_arg(argc, argv, "--gram", "0"));
    P_C03 = strcmp(mc_arg(argc, argv, "--props", "C07"), "C03") == 0;
    fp = fopen(DATADIR "/goforward.raw", "rb");
    if (!fp)
        return 2;
    NAUD_ALL = fread(AUD, 2, 60000, fp);
    fclose(fp);
    memcpy(AUD_ORIG, AUD, sizeof AUD_ORIG);
    if (audio == 4) {
        memset(AUD, 0, sizeof AUD);
        N = 8000;
    } else {
        /* the shorter excerpts start where speech starts */
        size_t off = audio == 3 ? 0 : 6000;
        N = LEN[audio] ? LEN[audio] : NAUD_ALL;
        memmove(AUD, AUD + off, N * 2);
    }
    if (atoi(mc_arg(argc, argv, "--window", "0")) && N > 410)
        N = 410 + 160 * ((N - 410) / 160); /* the audio ends exactly on the end of an analysis window */
    for (i = 0; i < N; i++)
        AUDF[i] = AUD[i] / 32768.0f;
    {
        const char *out = getenv("MC_OUT");
        snprintf(DICT_PATH, sizeof DICT_PATH, "%s.%d.dic", out ? out : "/var/tmp/mc_chunk", (int)getpid());
        fp = fopen(DICT_PATH, "w");
        fputs(DICT_TEXT, fp);
        fclose(fp);
    }
    COMPALLSEN = atoi(mc_arg(argc, argv, "--compallsen", "0"));
    FRESH = atoi(mc_arg(argc, argv, "--fresh", "0"));
    D = new_decoder();
    if (!D || set_grammar() < 0)
        return 2;
    if (atoi(mc_arg(argc, argv, "--prefull", "0"))) {
        /* the decoder has heard the whole recording in ONE full-utterance call before: buffers sized by that call stay that size */
        if (decoder_start_utt(D) < 0 || decoder_process_int16(D, AUD_ORIG, NAUD_ALL, 0, 1) < 0 || decoder_end_utt(D) < 0)
            return 2;
    }
    /* reference: one streaming call */
    memset(&p0, 0, sizeof p0);
    snprintf(cd, sizeof cd, "reference run");
    mc_set_current(cd);
    if (run_plan(&p0, &REF, cd) < 0) {
        mc_finish();
        return 0;
    }
    /* the reference itself must be repeatable */
    {
        static digest_t again;
        if (run_plan(&p0, &again, cd) < 0 || again.nfeat != REF.nfeat || strcmp(again.text, REF.text) != 0
            || memcmp(again.feat, REF.feat, sizeof(uint64_t) * REF.nfeat) != 0) {
            mc_viol("C07/one-call-run-not-repeatable", "reference run", "two identical one-call runs after decoder_set_cmn give different results");
            mc_finish();
            return 0;
        }
    }
    if (cas) {
        plan_t p;
        static digest_t g;
        static char first[2500];
        const char *after = strstr(cas, " <<after>> ");
        snprintf(first, sizeof first, "%s", cas);
        if (after) {
            plan_t q;
            first[after - cas] = 0;
            if (plan_parse(after + 11, &q) < 0)
                return 2;
            /* the plan that ran before the case on the same decoder; its own verdict is not the question here */
            mc_mute = 1;
            if (q.fullutt_len)
                run_fullutt(&q, "predecessor");
            else
                run_plan(&q, &g, "predecessor");
            mc_mute = 0;
        }
        if (plan_parse(first, &p) < 0)
            return 2;
        mc_set_current(cas);
        if (p.fullutt_len)
            run_fullutt(&p, cas);
        else if (run_plan(&p, &g, cas) == 0) {
            if (!P_C03)
                compare(&g, cas);
            else if (g.nfeat != REF.nfeat || g.n_frames != REF.n_frames)
                mc_viol("C03/frames-do-not-add-up", cas, "%d frames searched in total (decoder_n_frames %d), the one-call run has %d (%d)", g.nfeat, g.n_frames, REF.nfeat,
                        REF.n_frames);
        }
        unlink(DICT_PATH);
        mc_finish();
        return 0;
    }
    build_menu(mc_arg(argc, argv, "--menu", "full"));
    {
        plan_t e;
        memset(&e, 0, sizeof e);
        if (dev > 0)
            cuts(&e, 0, dev);
    }
    if (atoi(mc_arg(argc, argv, "--subsets", "0"))) {
        /* every subset of a 10-point sub-menu as cut set */
        int n10 = NMENU < 10 ? NMENU : 10, mask, k;
        for (mask = 1; mask < (1 << n10); mask++) {
            plan_t e;
            memset(&e, 0, sizeof e);
            for (k = 0; k < n10; k++)
                if (mask >> k & 1)
                    e.cut[e.ncut++] = MENU[k * NMENU / n10];
            add_plan(&e);
        }
    }
    if (atoi(mc_arg(argc, argv, "--firstcut", "0"))) {
        size_t c;
        for (c = 1; c <= 600 && c < N; c++) {
            plan_t e;
            memset(&e, 0, sizeof e);
            e.ncut = 1;
            e.cut[0] = c;
            add_plan(&e);
        }
    }
    if (atoi(mc_arg(argc, argv, "--lastpiece", "0"))) {
        /* everything but the last m samples, then those: the last call completes (or just fails to complete) the last window */
        static const size_t ms[] = { 1, 2, 50, 100, 159, 160, 161, 300, 409, 410 };
        size_t k;
        int v;
        for (k = 0; k < sizeof ms / sizeof *ms; k++)
            for (v = 0; v < 2; v++) {
                plan_t e;
                if (ms[k] >= N)
                    continue;
                memset(&e, 0, sizeof e);
                e.ncut = 1;
                e.cut[0] = N - ms[k];
                e.isfloat[0] = e.isfloat[1] = v;
                add_plan(&e);
            }
    }
    if (atoi(mc_arg(argc, argv, "--fullutt", "0"))) {
        /* every length in the last 170 samples: every remainder of the length modulo the frame shift */
        size_t L;
        int v;
        for (L = N > 170 ? N - 170 : 1; L <= N; L++)
            for (v = 0; v < 2; v++) {
                plan_t e;
                memset(&e, 0, sizeof e);
                e.fullutt_len = L;
                e.isfloat[0] = v;
                add_plan(&e);
            }
    }
    if (atoi(mc_arg(argc, argv, "--uniform", "0"))) {
        static const size_t sizes[] = { 1, 80, 159, 160, 161, 320, 400, 512, 1024, 2048, 4096, 8192 };
        size_t k;
        int v;
        for (k = 0; k < sizeof sizes / sizeof *sizes; k++)
            for (v = 0; v < 4; v++) {
                plan_t e;
                if (sizes[k] == 1 && v)
                    continue;
                memset(&e, 0, sizeof e);
                e.uniform = sizes[k];
                e.isfloat[0] = v & 1;
                e.query[0] = v & 2 ? Q_HYP : 0;
                add_plan(&e);
            }
    }
    mc_sample("audio %d (%zu samples), grammar %d, %d menu points, up to %d deviations: %ld plans; one-call reference: %.300s", audio, N, GRAM, NMENU, dev, NPLANS,
              REF.text);
    if (NPLANS > 3) {
        char d1[1200];
        plan_desc(&PLANS[NPLANS / 2], d1, sizeof d1);
        mc_sample("%s", d1);
        plan_desc(&PLANS[NPLANS - 1], d1, sizeof d1);
        mc_sample("%s", d1);
    }
    complete = mc_fork_loop(shard, NPLANS, nshard, 64, 300, run_index, NULL);
    unlink(DICT_PATH);
    mc_stat("evaluations", mc_sh ? mc_sh->evals : 0);
    mc_stat("nontrivial", mc_sh ? mc_sh->nontriv : 0);
    mc_stat("reference_frames", REF.nfeat);
    mc_flag("exhaustive", complete);
    mc_finish();
    return 0;
}
