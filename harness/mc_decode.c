/* H7 mc_decode -- C01, C02, C03 (and, through mc_decode_more.h, C04, C11, C12, C14): the real decoder,
 * public API, real model, real front end, lextree, search, history, driven over an exhaustively
 * enumerated space of (grammar x route x "audio" x call pattern); only the senone scores are supplied by
 * the harness (acmod_score is interposed), which turns "every audio signal" into a finite symbol alphabet
 * while every search decision stays real.  DESIGN.md H7.
 *
 * usage: mc_decode --props C01,C03 --conf default|open|tight [--filler 0|1] [--alt 0|1] [--lw X] [--wip X] [--pip X]
 *                  --gset enum:N:A|hand --words a,go,no [--probs 1,0.5] --routes api,jsgf --segs S --lens 3,4
 *                  --syms SIL,AH,G,OW,_ [--shard i/n] [--case "<descriptor>"]
 */
#include "../engine/mc.h"
#include "dec_common.h"
#include "refviterbi.h"
#include <math.h>

static decoder_t *D;
static dc_conf_t CONF;
static int P_C01, P_C02, P_C03, P_C04, P_C11, P_C12, P_C14;
static int OPEN_BEAMS;
static const char *CONFNAME = "default";

/* ---------- grammar set ---------- */
static gspec_t *GSET;
static int NG;
static char WORDBUF[256];
static const char *WORDS[8];
static int NWORDS;
static double PROBS[4] = { 1.0 };
static int NPROBS = 1;

static int
g_reachable_all(const gspec_t *g)
{
    int seen[8] = { 0 }, ch = 1, i;
    seen[g->start] = 1;
    while (ch) {
        ch = 0;
        for (i = 0; i < g->narcs; i++)
            if (seen[g->from[i]] && !seen[g->to[i]])
                seen[g->to[i]] = ch = 1;
    }
    for (i = 0; i < g->n; i++)
        if (!seen[i])
            return 0;
    return 1;
}

static void
g_canon_key(const gspec_t *g, const int *perm, char *key, size_t n)
{
    /* sorted arc list under the state renaming perm */
    int idx[GS_MAXA], i, j;
    long code[GS_MAXA];
    size_t o;
    for (i = 0; i < g->narcs; i++) {
        long pk = (long)(g->prob[i] * 1000 + 0.5);
        code[i] = (((long)perm[g->from[i]] * 8 + perm[g->to[i]]) * 16 + (g->label[i] + 1)) * 2000 + pk;
        idx[i] = i;
    }
    for (i = 0; i < g->narcs; i++)
        for (j = i + 1; j < g->narcs; j++)
            if (code[j] < code[i]) {
                long t = code[i];
                code[i] = code[j];
                code[j] = t;
            }
    o = snprintf(key, n, "%d/%d/", g->n, perm[g->final]);
    for (i = 0; i < g->narcs; i++)
        o += snprintf(key + o, n - o, "%ld,", code[i]);
    (void)idx;
}

static void
build_enum_gset(int NS, int NA)
{
    int n, na, fi, t[GS_MAXA], i, ntypes, cap = 1024, nlab = NWORDS + 1;
    mc_set seen;
    mc_set_init(&seen, 1 << 14);
    GSET = malloc(sizeof(gspec_t) * cap);
    NG = 0;
    for (n = 1; n <= NS; n++) {
        ntypes = n * n * nlab * NPROBS;
        for (na = 1; na <= NA; na++) {
            for (i = 0; i < na; i++)
                t[i] = 0;
            for (;;) {
                for (fi = 0; fi < n; fi++) {
                    gspec_t g;
                    char key[512], best[512];
                    int perm[8], useful = 1;
                    memset(&g, 0, sizeof g);
                    g.n = n;
                    g.start = 0;
                    g.final = fi;
                    g.narcs = na;
                    g.nwords = NWORDS;
                    for (i = 0; i < NWORDS; i++)
                        g.words[i] = WORDS[i];
                    for (i = 0; i < na; i++) {
                        int ty = t[i];
                        g.prob[i] = PROBS[ty % NPROBS];
                        ty /= NPROBS;
                        g.label[i] = ty % nlab - 1;
                        ty /= nlab;
                        g.to[i] = ty % n;
                        g.from[i] = ty / n;
                        if (g.label[i] < 0 && g.from[i] == g.to[i])
                            useful = 0; /* null self-loops are dropped by the library: same grammar as without */
                    }
                    if (!useful || !g_reachable_all(&g))
                        continue;
                    /* canonical form under renaming of the non-start states */
                    best[0] = 0;
                    {
                        int p1, p2;
                        for (p1 = 1; p1 < (n > 1 ? n : 2); p1++)
                            for (p2 = 1; p2 < (n > 2 ? n : 2); p2++) {
                                if (n > 2 && p1 == p2)
                                    continue;
                                perm[0] = 0;
                                perm[1] = p1;
                                perm[2] = n > 2 ? p2 : 2;
                                if (n == 2)
                                    perm[1] = 1;
                                g_canon_key(&g, perm, key, sizeof key);
                                if (!best[0] || strcmp(key, best) < 0)
                                    strcpy(best, key);
                            }
                    }
                    if (!mc_set_add(&seen, mc_hash(best, strlen(best))))
                        continue;
                    if (NG == cap) {
                        cap *= 2;
                        GSET = realloc(GSET, sizeof(gspec_t) * cap);
                    }
                    GSET[NG++] = g;
                }
                for (i = na - 1; i >= 0; i--)
                    if (t[i] < ntypes - 1)
                        break;
                if (i < 0)
                    break;
                t[i]++;
                {
                    int j;
                    for (j = i + 1; j < na; j++)
                        t[j] = t[i];
                }
            }
        }
    }
    free(seen.tab);
}

/* hand-written grammars: context fan-in/fan-out, shared prefixes, loops, null chains, start = final */
static const char *const HAND[] = {
    "n=3 s=0 f=2 arcs=0>1:a:1,0>1:i:1,0>1:no:1,1>2:go:1",
    "n=3 s=0 f=2 arcs=0>1:go:1,1>2:a:1,1>2:i:1,1>2:oh:1",
    "n=3 s=0 f=2 arcs=0>1:a:1,0>1:no:1,1>2:go:1,1>2:goat:1",
    "n=2 s=0 f=1 arcs=0>1:go:1,0>1:goat:1,0>1:ago:1",
    "n=2 s=0 f=1 arcs=0>1:go:0.5,0>1:no:0.5,1>0:eps:1",
    "n=3 s=0 f=2 arcs=0>1:eps:1,1>2:eps:0.5,1>2:go:0.5,0>0:a:1",
    "n=1 s=0 f=0 arcs=0>0:a:0.5,0>0:go:0.5",
    "n=4 s=0 f=3 arcs=0>1:a:1,1>2:go:1,2>3:at:1",
    "n=4 s=0 f=3 arcs=0>1:no:1,1>2:eps:1,2>3:goat:1,1>3:oh:0.5",
    "n=3 s=0 f=2 arcs=0>1:ago:1,1>2:ago:1,1>1:eps:1",
    "n=3 s=0 f=1 arcs=0>1:a:1,1>2:go:1,2>1:a:1",
    "n=2 s=0 f=1 arcs=0>1:oh:1,0>1:no:1,0>1:go:1,1>1:oh:1",
    "n=3 s=0 f=2 arcs=0>1:at:1,1>2:a:1,0>2:goat:1",
    "n=2 s=0 f=1 arcs=0>0:i:1,0>1:at:1",
    "n=3 s=0 f=2 arcs=0>1:go:1,0>2:eps:1,1>2:no:1",
};
static char HANDBUF[sizeof HAND / sizeof *HAND][128];
/* every spelling class the dictionary accepts: quote, backslash, non-ASCII bytes, a control character */
static const char *const SPECIAL[] = {
    "n=2 s=0 f=1 arcs=0>1:say\"q:1",
    "n=2 s=0 f=1 arcs=0>1:back\\slash:1",
    "n=2 s=0 f=1 arcs=0>1:caf\xc3\xa9:1",
    "n=2 s=0 f=1 arcs=0>1:ctl\x01x:1",
    "n=3 s=0 f=2 arcs=0>1:say\"q:1,1>2:back\\slash:1,1>2:a:1",
    "n=2 s=0 f=1 arcs=0>1:a:1,1>1:caf\xc3\xa9:1,0>1:ctl\x01x:1",
    "n=2 s=0 f=1 arcs=0>1:goatakesabeenaiford:1",
    "n=3 s=0 f=2 arcs=0>1:a:1,1>2:goatakesabeenaiford:1",
};
static char SPECBUF[sizeof SPECIAL / sizeof *SPECIAL][128];

static void
build_hand_gset(void)
{
    int i, n = (int)(sizeof HAND / sizeof *HAND);
    GSET = malloc(sizeof(gspec_t) * n);
    NG = 0;
    for (i = 0; i < n; i++)
        if (gs_parse(HAND[i], &GSET[NG], HANDBUF[i], sizeof HANDBUF[i]) == 0)
            NG++;
        else {
            fprintf(stderr, "bad hand grammar %d\n", i);
            exit(2);
        }
}

/* loop grammars over many short words: with utterances of a few dozen frames the lattices hold thousands of paths,
 * enough to fill the N-best search's agenda */
static const char *const LOOPS[] = {
    "n=1 s=0 f=0 arcs=0>0:a:1,0>0:i:1,0>0:oh:1,0>0:go:1,0>0:no:1,0>0:ago:1",
    "n=2 s=0 f=1 arcs=0>1:a:1,0>1:i:1,0>1:oh:1,0>1:go:1,0>1:no:1,1>0:eps:1,1>1:at:1",
    "n=1 s=0 f=0 arcs=0>0:one:1,0>0:two:1,0>0:three:1,0>0:four:1,0>0:five:1,0>0:six:1,0>0:seven:1,0>0:eight:1,0>0:nine:1,0>0:ten:1,0>0:go:1,"
    "0>0:forward:1,0>0:backward:1,0>0:meter:1,0>0:meters:1,0>0:a:1,0>0:the:1,0>0:to:1,0>0:for:1",
};
static char LOOPBUF[sizeof LOOPS / sizeof *LOOPS][320];
static void
build_loop_gset(void)
{
    int i, n = (int)(sizeof LOOPS / sizeof *LOOPS);
    GSET = malloc(sizeof(gspec_t) * n);
    NG = 0;
    for (i = 0; i < n; i++)
        if (gs_parse(LOOPS[i], &GSET[NG], LOOPBUF[i], sizeof LOOPBUF[i]) == 0)
            NG++;
        else {
            fprintf(stderr, "bad loop grammar %d\n", i);
            exit(2);
        }
}

static void
build_special_gset(void)
{
    int i, n = (int)(sizeof SPECIAL / sizeof *SPECIAL);
    GSET = malloc(sizeof(gspec_t) * n);
    NG = 0;
    for (i = 0; i < n; i++)
        if (gs_parse(SPECIAL[i], &GSET[NG], SPECBUF[i], sizeof SPECBUF[i]) == 0)
            NG++;
        else {
            fprintf(stderr, "bad special grammar %d\n", i);
            exit(2);
        }
}

/* ---------- utterances ---------- */
static int SEGS = 3, LENS[4] = { 3, 4 }, NLENS = 2;
static long NUTT;

static long
utt_count(void)
{
    long c = 0, k = 1;
    int s;
    for (s = 1; s <= SEGS; s++) {
        k *= (long)DC_NSYM * NLENS;
        c += k;
    }
    return c + 1; /* + the empty utterance */
}

/* utterance number u -> frame symbols; returns the number of frames */
static int
utt_frames(long u, unsigned char *sym, char *desc, size_t n)
{
    long k = (long)DC_NSYM * NLENS, c = k;
    int s = 1, i, T = 0;
    size_t o = 0;
    desc[0] = 0;
    if (u == 0) {
        snprintf(desc, n, "(no audio)");
        return 0;
    }
    u -= 1;
    while (u >= c) {
        u -= c;
        c *= k;
        s++;
    }
    for (i = 0; i < s; i++) {
        int code = (int)(u % k), sy = code / NLENS, len = LENS[code % NLENS], j;
        u /= k;
        for (j = 0; j < len && T < MAXFRAMES; j++)
            sym[T++] = (unsigned char)sy;
        o += snprintf(desc + o, n - o, "%s%s*%d", i ? " " : "", DC_SYMNAME[sy], len);
    }
    return T;
}

static int
utt_parse(const char *s, unsigned char *sym)
{
    int T = 0;
    if (strncmp(s, "(no audio)", 10) == 0)
        return 0;
    while (*s && *s != '|') {
        char name[16];
        int len, k, j;
        while (*s == ' ')
            s++;
        if (!*s || *s == '|')
            break;
        if (sscanf(s, "%15[^*]*%d", name, &len) != 2)
            return -1;
        for (k = 0; k < DC_NSYM; k++)
            if (strcmp(DC_SYMNAME[k], name) == 0)
                break;
        if (k == DC_NSYM)
            return -1;
        for (j = 0; j < len; j++)
            sym[T++] = (unsigned char)k;
        while (*s && *s != ' ' && *s != '|')
            s++;
    }
    return T;
}

/* ---------- reference network from the grammar the search is running on ---------- */
static rv_net NET;
static int NET_FOR_G = -1, NET_FOR_ROUTE = -1;

static int
build_net_from_search(rv_net *N)
{
    fsg_search_t *fsgs = (fsg_search_t *)D->search;
    fsg_model_t *fsg = fsgs->fsg;
    dict_t *dict = D->dict;
    int i, p;
    rv_unit *keep = N->unit;
    long long c0 = N->cells, u0 = N->units_built;
    memset(N, 0, sizeof *N);
    N->unit = keep;
    N->cells = c0;
    N->units_built = u0;
    N->n_state = fsg_model_n_state(fsg);
    if (N->n_state > RV_MAXS)
        return -1;
    N->start = fsg_model_start_state(fsg);
    N->final = fsg_model_final_state(fsg);
    N->mdef = D->acmod->mdef;
    N->n_ci = bin_mdef_n_ciphone(N->mdef);
    N->sil = bin_mdef_silphone(N->mdef);
    N->n_emit = bin_mdef_n_emit_state(N->mdef);
    N->tp = D->acmod->tmat->tp;
    /* penalties as configured (the formulas of fsg_search_init are the documented meaning of wip/pip/lw) */
    {
        double lw = config_float(D->config, "lw");
        N->wip = (int32)(logmath_log(D->lmath, config_float(D->config, "wip")) * lw) >> SENSCR_SHIFT;
        N->pip = (int32)(logmath_log(D->lmath, config_float(D->config, "pip")) * lw) >> SENSCR_SHIFT;
    }
    if (N->n_ci > RV_MAXCI)
        return -1;
    for (i = 0; i < N->n_state; i++) {
        fsg_arciter_t *it;
        for (it = fsg_model_arcs(fsg, i); it; it = fsg_arciter_next(it)) {
            fsg_link_t *l = fsg_arciter_get(it);
            rv_arc *A;
            if (N->narc == RV_MAXARC) {
                fsg_arciter_free(it);
                return -1;
            }
            A = &N->arc[N->narc++];
            memset(A, 0, sizeof *A);
            A->from = fsg_link_from_state(l);
            A->to = fsg_link_to_state(l);
            A->lp = fsg_link_logs2prob(l) >> SENSCR_SHIFT;
            A->allowed_ef = -1;
            A->wid = -1;
            if (fsg_link_wid(l) >= 0) {
                const char *w = fsg_model_word_str(fsg, fsg_link_wid(l));
                A->wid = dict_wordid(dict, w);
                if (A->wid < 0)
                    return -1;
                A->filler = dict_filler_word(dict, A->wid);
                A->npron = dict_pronlen(dict, A->wid);
                if (A->npron > RV_MAXPH || (A->filler && A->npron != 1))
                    return -1;
                for (p = 0; p < A->npron; p++)
                    A->ci[p] = dict_pron(dict, A->wid, p);
            }
        }
    }
    return rv_build(N);
}

/* ---------- one case ---------- */
typedef struct {
    int g, route, pattern;
    long u; /* utterance number, or -1: symbols already in DC_FRAMESYM (REPLAY_T frames, REPLAY_UTT text) */
} dcase_t;
static long long CUR_IDX = -1;
static int REPLAY_T;
static const char *REPLAY_UTT;

static lattice_t *HELD_DAG;
static int CUR_G = -1, CUR_ROUTE = -1, CUR_SET_OK;
static char LAST_RESULT[1500];
static rg_gram CUR_REF;
static int16 ZEROS[MAXFRAMES * 160 + 1024];
/* --real 1: REAL audio and the REAL scorer (no injected scores) for the lattice properties: excerpts of the recording under
 * loop grammars give lattices of hundreds of nodes, which the symbolic utterances of a few dozen frames never do */
static int REAL_MODE, PATONLY = -1;
static int16 REALAUD[60000];
static size_t REALN;
#define NREAL 12
static const size_t REAL_UTT[NREAL][2] = { { 0, 0 /* all */ }, { 0, 24000 }, { 16000, 28000 }, { 0, 36000 }, { 0, 30000 }, { 4000, 40000 }, { 4000, 32000 },
                                             { 8000, 36000 }, { 8000, 28000 }, { 2000, 42000 }, { 6000, 38000 }, { 12000, 32000 } };
static const int16 *AUDP = ZEROS;

static const char *const FILLERS[] = { "<sil>", "[NOISE]", "[SPEECH]", "<s>", "</s>" };
static int
is_filler_word(const char *w)
{
    unsigned i;
    for (i = 0; i < sizeof FILLERS / sizeof *FILLERS; i++)
        if (strcmp(w, FILLERS[i]) == 0)
            return 1;
    return 0;
}

/* word labels of a result, fillers and null segments removed, alternates mapped to their base;
 * returns count or -1 if a word is not in the grammar's vocabulary */
static int
seg_labels(const gspec_t *g, const dc_result_t *r, int *lab, char *unknown, size_t nu)
{
    int i, n = 0, k;
    for (i = 0; i < r->nseg; i++) {
        char base[48];
        if (strcmp(r->seg[i].word, "(NULL)") == 0 || is_filler_word(r->seg[i].word))
            continue;
        dc_base(r->seg[i].word, base, sizeof base);
        /* a grammar may name an alternate pronunciation itself: both sides are compared without the marker (the word
         * lists in use never hold two spellings of one base form) */
        for (k = 0; k < g->nwords; k++) {
            char gb[48];
            dc_base(g->words[k], gb, sizeof gb);
            if (strcmp(gb, base) == 0)
                break;
        }
        if (k == g->nwords) {
            snprintf(unknown, nu, "%s", r->seg[i].word);
            return -1;
        }
        lab[n++] = k;
    }
    return n;
}

static int
hyp_labels(const gspec_t *g, const char *hyp, int *lab, char *unknown, size_t nu)
{
    char buf[1024], *tok, *save = NULL;
    int n = 0, k;
    snprintf(buf, sizeof buf, "%s", hyp);
    for (tok = strtok_r(buf, " ", &save); tok; tok = strtok_r(NULL, " ", &save)) {
        for (k = 0; k < g->nwords; k++) {
            char gb[48];
            dc_base(g->words[k], gb, sizeof gb);
            if (strcmp(gb, tok) == 0)
                break;
        }
        if (k == g->nwords) {
            snprintf(unknown, nu, "%s", tok);
            return -1;
        }
        lab[n++] = k;
    }
    return n;
}

static int LSCR_OK[128], NLSCR_OK;
static void
allowed_lscr(const gspec_t *g)
{
    double lw = config_float(D->config, "lw");
    int i;
    NLSCR_OK = 0;
    for (i = 0; i < g->narcs; i++)
        LSCR_OK[NLSCR_OK++] = (int32)(logmath_log(D->lmath, g->prob[i]) * lw) >> SENSCR_SHIFT;
    /* null arcs added by the closure carry the summed weight of the null path they stand for */
    {
        int eps[8][8], a, b, c;
        for (a = 0; a < 8; a++)
            for (b = 0; b < 8; b++)
                eps[a][b] = 1;
        for (i = 0; i < g->narcs; i++)
            if (g->label[i] < 0 && g->from[i] < 8 && g->to[i] < 8) {
                int lp = (int32)(logmath_log(D->lmath, g->prob[i]) * lw);
                if (eps[g->from[i]][g->to[i]] > 0 || lp > eps[g->from[i]][g->to[i]])
                    eps[g->from[i]][g->to[i]] = lp;
            }
        for (c = 0; c < g->n && c < 8; c++)
            for (a = 0; a < g->n && a < 8; a++)
                for (b = 0; b < g->n && b < 8; b++)
                    if (eps[a][c] <= 0 && eps[c][b] <= 0 && (eps[a][b] > 0 || eps[a][c] + eps[c][b] > eps[a][b]))
                        eps[a][b] = eps[a][c] + eps[c][b];
        for (a = 0; a < g->n && a < 8; a++)
            for (b = 0; b < g->n && b < 8; b++)
                if (eps[a][b] <= 0 && NLSCR_OK < 60)
                    LSCR_OK[NLSCR_OK++] = eps[a][b] >> SENSCR_SHIFT;
    }
    LSCR_OK[NLSCR_OK++] = (int32)(logmath_log(D->lmath, config_float(D->config, "silprob")) * lw) >> SENSCR_SHIFT;
    LSCR_OK[NLSCR_OK++] = (int32)(logmath_log(D->lmath, config_float(D->config, "fillprob")) * lw) >> SENSCR_SHIFT;
}

/* C03 on one (partial or final) result; nsearched = frames searched so far */
static int
check_c03(const dc_result_t *r, int nsearched, const char *cd, const char *when)
{
    int i, prev_ef = -1, sum = 0, any_real = 0, o = 0;
    char rs[1500], proj[1024] = "";
    dc_result_str(r, rs, sizeof rs);
    if (r->has_hyp && r->nseg == 0) {
        mc_viol("C03/hypothesis-without-segments", cd, "%s: %s", when, rs);
        return -1;
    }
    for (i = 0; i < r->nseg; i++) {
        const dc_seg_t *s = &r->seg[i];
        int k, okl = 0;
        if (strcmp(s->word, "(NULL)") == 0) {
            if (s->sf != s->ef || s->ef != prev_ef) {
                mc_viol("C03/null-segment-moves-time", cd, "%s: null segment %d spans %d-%d, previous boundary %d; %s", when, i, s->sf, s->ef,
                        prev_ef, rs);
                return -1;
            }
        } else {
            if (s->sf != prev_ef + 1) {
                mc_viol(any_real ? "C03/segments-not-contiguous" : "C03/first-segment-not-at-frame-0", cd,
                        "%s: segment %d (%s) starts at %d, previous ended at %d; %s", when, i, s->word, s->sf, prev_ef, rs);
                return -1;
            }
            if (s->ef < s->sf) {
                mc_viol("C03/segment-without-frames", cd, "%s: segment %d (%s) spans %d-%d; %s", when, i, s->word, s->sf, s->ef, rs);
                return -1;
            }
            prev_ef = s->ef;
            any_real = 1;
            if (!is_filler_word(s->word)) {
                char base[48];
                dc_base(s->word, base, sizeof base);
                o += snprintf(proj + o, sizeof proj - o, "%s%s", o ? " " : "", base);
            }
        }
        if (s->ef >= nsearched) {
            mc_viol("C03/segment-past-frames-searched", cd, "%s: segment %d (%s) ends at %d but only %d frames were searched; %s", when, i, s->word,
                    s->ef, nsearched, rs);
            return -1;
        }
        sum += s->ascr + s->lscr;
        for (k = 0; k < NLSCR_OK; k++)
            if (LSCR_OK[k] == s->lscr)
                okl = 1;
        if (!okl && CUR_ROUTE != ROUTE_JSGF) {
            mc_viol("C03/grammar-score-not-an-arc-weight", cd, "%s: segment %d (%s) has grammar score %d, which is no arc's weight; %s", when, i,
                    s->word, s->lscr, rs);
            return -1;
        }
    }
    if (r->nseg && sum != r->score) {
        mc_viol("C03/segment-scores-do-not-sum-to-path-score", cd, "%s: sum of segment scores %d, path score %d; %s", when, sum, r->score, rs);
        return -1;
    }
    if (r->nseg && strcmp(proj, r->has_hyp ? r->hyp : "") != 0) {
        mc_viol("C03/hypothesis-differs-from-segments", cd, "%s: segments spell \"%s\"; %s", when, proj, rs);
        return -1;
    }
    return 0;
}

static int
check_c01(const gspec_t *g, const dc_result_t *r, int final, const char *cd, const char *when)
{
    int lab[MAXSEG], n;
    char unk[64], rs[1500];
    if (!r->has_hyp && r->nseg == 0)
        return 0;
    dc_result_str(r, rs, sizeof rs);
    n = seg_labels(g, r, lab, unk, sizeof unk);
    if (n < 0) {
        mc_viol("C01/word-not-in-grammar", cd, "%s: segment word \"%s\" does not occur in the grammar; %s", when, unk, rs);
        return -1;
    }
    if (final ? rg_score(&CUR_REF, NULL, lab, n) == RG_NEG : !rg_is_prefix(&CUR_REF, NULL, lab, n)) {
        mc_viol(final ? "C01/final-result-not-a-sentence" : "C01/partial-result-not-a-path-prefix", cd, "%s: segmentation is not %s; %s", when,
                final ? "accepted start-to-final by the grammar" : "a path from the start state", rs);
        return -1;
    }
    if (r->has_hyp) {
        n = hyp_labels(g, r->hyp, lab, unk, sizeof unk);
        if (n < 0) {
            mc_viol("C01/word-not-in-grammar", cd, "%s: hypothesis word \"%s\" does not occur in the grammar; %s", when, unk, rs);
            return -1;
        }
        if (final ? rg_score(&CUR_REF, NULL, lab, n) == RG_NEG : !rg_is_prefix(&CUR_REF, NULL, lab, n)) {
            mc_viol(final ? "C01/final-result-not-a-sentence" : "C01/partial-result-not-a-path-prefix", cd, "%s: hypothesis string is not %s; %s",
                    when, final ? "accepted start-to-final by the grammar" : "a path from the start state", rs);
            return -1;
        }
    }
    return 1;
}

#include "mc_decode_more.h"

/* The decoder lives across cases, as it does across utterances in use: a case is reported together with the case that
 * ran before it on the same decoder ("<<after>>"), and a replay runs that one first. */
static char PREV_CD[1400];
static int
run_dcase(const dcase_t *c)
{
    const gspec_t *g = &GSET[c->g];
    char cd[3000], gd[600], ud[400];
    unsigned char *sym = DC_FRAMESYM;
    int T, nsearched = 0, rc, nontrivial = 0, k;
    size_t nsamp;
    dc_result_t R;
    long long v0 = mc_nviol;
    const int16 *ssbf[MAXFRAMES];

    size_t real_len = 0;
    if (REAL_MODE) {
        size_t off = 0;
        if (c->u >= 0) {
            off = REAL_UTT[c->u][0];
            real_len = REAL_UTT[c->u][1] ? REAL_UTT[c->u][1] : REALN;
        } else if (sscanf(REPLAY_UTT, "real:%zu+%zu", &off, &real_len) != 2)
            return 0;
        if (off + real_len > REALN)
            real_len = REALN - off;
        snprintf(ud, sizeof ud, "real:%zu+%zu", off, real_len);
        AUDP = REALAUD + off;
        T = (int)((real_len - 410) / 160 + 1 + ((real_len - 410) % 160 ? 1 : 0));
    } else if (c->u >= 0)
        T = utt_frames(c->u, sym, ud, sizeof ud);
    else {
        T = REPLAY_T;
        snprintf(ud, sizeof ud, "%s", REPLAY_UTT);
    }
    DC_NFRAMESYM = T > 0 ? T : 1;
    if (T == 0)
        sym[0] = 0;
    gs_desc(g, gd, sizeof gd);
    snprintf(cd, sizeof cd, "conf=%s route=%s pattern=%d grammar{%s} utt{%s}%s%s", CONFNAME, ROUTE_NAME[c->route], c->pattern, gd, ud,
             PREV_CD[0] ? " <<after>> " : "", PREV_CD);
    snprintf(PREV_CD, sizeof PREV_CD, "conf=%s route=%s pattern=%d grammar{%s} utt{%s}", CONFNAME, ROUTE_NAME[c->route], c->pattern, gd, ud);
    mc_case_begin(CUR_IDX, cd);

    if (c->route == ROUTE_ALIGN) {
        char text[256];
        if (!gs_is_chain(g, text, sizeof text))
            return 0; /* not expressible as alignment text */
    }
    if (CUR_G != c->g || CUR_ROUTE != c->route) {
        CUR_G = c->g;
        CUR_ROUTE = c->route;
        CUR_SET_OK = dc_set_grammar(D, g, c->route) == 0;
        gs_to_ref(g, &CUR_REF);
        allowed_lscr(g);
        NET_FOR_G = -1;
    }
    if (!CUR_SET_OK) {
        mc_viol("C01/valid-grammar-refused", cd, "the decoder refused a grammar whose words are all in the dictionary");
        return -1;
    }
    nsamp = REAL_MODE ? real_len : dc_samples_for_frames(T);

    if (decoder_start_utt(D) < 0) {
        mc_viol("C03/start-utt-failed", cd, "decoder_start_utt failed");
        return -1;
    }
    if (c->pattern == 0) {
        rc = decoder_process_int16(D, AUDP, nsamp, 0, 0);
        if (rc < 0) {
            mc_viol("C03/process-failed", cd, "decoder_process_int16 returned %d", rc);
            return -1;
        }
        nsearched += rc;
    } else if (c->pattern == 2) {
        /* the whole utterance in ONE full_utt call; every kind of partial result is asked for before decoder_end_utt,
         * which searches no further frame in this mode: whatever was cached for the partial result meets the final one */
        char when[64];
        rc = decoder_process_int16(D, AUDP, nsamp, 0, 1);
        if (rc < 0) {
            mc_viol("C03/process-failed", cd, "decoder_process_int16(full_utt) returned %d", rc);
            return -1;
        }
        nsearched += rc;
        dc_collect(D, &R);
        snprintf(when, sizeof when, "partial result after the full-utterance call (%d frames)", nsearched);
        if (P_C03 && check_c03(&R, nsearched, cd, when) < 0)
            goto out;
        if (P_C01 && check_c01(g, &R, 0, cd, when) < 0)
            goto out;
        if ((P_C11 || P_C12) && nsearched > 0 && check_lattice(g, &R, nsearched, cd, when) < 0)
            goto out;
        if (P_C11 && nsearched > 0 && (HELD_DAG = decoder_lattice(D)) != NULL)
            lattice_retain(HELD_DAG); /* kept alive so that its address cannot be handed out again */
        if (P_C04 && nsearched > 0 && check_c04(&R, nsearched, cd, when) < 0)
            goto out;
        if (P_C14 && nsearched > 0 && check_c14(&R, cd, when) < 0)
            goto out;
    } else {
        /* frame-sized chunks, partial result after every chunk */
        size_t off = 0;
        while (off < nsamp) {
            size_t n = nsamp - off < (size_t)DC_SHIFT ? nsamp - off : (size_t)DC_SHIFT;
            rc = decoder_process_int16(D, AUDP + off, n, 0, 0);
            if (rc < 0) {
                mc_viol("C03/process-failed", cd, "decoder_process_int16 returned %d", rc);
                return -1;
            }
            nsearched += rc;
            off += n;
            if (P_C01 || P_C03) {
                char when[64];
                dc_collect(D, &R);
                snprintf(when, sizeof when, "partial result after %d frames", nsearched);
                if (P_C03 && check_c03(&R, nsearched, cd, when) < 0)
                    goto out;
                if (P_C01 && check_c01(g, &R, 0, cd, when) < 0)
                    goto out;
            }
            if ((P_C11 || P_C12) && nsearched > 0 && (nsearched % 4) == 2) {
                char when[64];
                dc_collect(D, &R);
                snprintf(when, sizeof when, "partial result after %d frames", nsearched);
                if (check_lattice(g, &R, nsearched, cd, when) < 0)
                    goto out;
            }
            if ((P_C04 || P_C14) && nsearched > 0 && (nsearched % 4) == 1) {
                /* second pass and JSON on a partial result, then the utterance goes on */
                char when[64];
                dc_collect(D, &R);
                snprintf(when, sizeof when, "partial result after %d frames", nsearched);
                if (P_C04 && check_c04(&R, nsearched, cd, when) < 0)
                    goto out;
                if (P_C14 && check_c14(&R, cd, when) < 0)
                    goto out;
            }
        }
    }
    {
        int before = decoder_n_frames(D);
        if (decoder_end_utt(D) < 0) {
            mc_viol("C03/end-utt-failed", cd, "decoder_end_utt failed");
            return -1;
        }
        nsearched += decoder_n_frames(D) - before;
        if (HELD_DAG) {
            /* decoder_end_utt searched no further frame (full-utterance call): the lattice asked for again is the same object */
            lattice_t *again = decoder_n_frames(D) == before ? decoder_lattice(D) : HELD_DAG;
            int same = again == HELD_DAG;
            lattice_free(HELD_DAG);
            HELD_DAG = NULL;
            if (!same) {
                mc_viol("C11/second-call-differs", cd, "the lattice asked for before decoder_end_utt and again after it, with no frame searched in between (%d both times), is a different object",
                        before);
                goto out;
            }
        }
    }
    dc_collect(D, &R);
    if (P_C03) {
        if (nsearched != T) {
            mc_viol("C03/frame-count", cd, "%zu samples make %d frames, but the processing calls and end_utt account for %d", nsamp, T, nsearched);
            goto out;
        }
        if (check_c03(&R, nsearched, cd, "final result") < 0)
            goto out;
    }
    if (P_C01) {
        rc = check_c01(g, &R, 1, cd, "final result");
        if (rc < 0)
            goto out;
    }
    nontrivial = R.has_hyp;
    dc_result_str(&R, LAST_RESULT, sizeof LAST_RESULT);
    if (P_C01 || P_C02) {
        /* reference optimum on the grammar the search is running on */
        rv_result V;
        if (NET_FOR_G != c->g || NET_FOR_ROUTE != c->route) {
            if (build_net_from_search(&NET) < 0) {
                mc_viol("harness/reference-network-too-large", cd, "reference network exceeds harness tables");
                goto out;
            }
            NET_FOR_G = c->g;
            NET_FOR_ROUTE = c->route;
        }
        for (k = 0; k < T; k++)
            ssbf[k] = DC_SCORES[sym[k]];
        {
            long long c0 = NET.cells;
            V = rv_viterbi(&NET, T, ssbf);
            mc_count(7, NET.cells - c0);
        }
        mc_count(0, 1);
        if (V.best > RV_NEG)
            mc_count(1, 1);
        if (P_C01 && V.best <= RV_NEG && R.has_hyp) {
            char rs[1500];
            dc_result_str(&R, rs, sizeof rs);
            mc_viol("C01/hypothesis-although-no-complete-path", cd,
                    "no alignment of the %d frames to a sentence of the grammar exists, yet a hypothesis is returned; %s", T, rs);
            goto out;
        }
        if (P_C02 && check_c02(&R, &V, T, cd, ssbf) < 0)
            goto out;
    }
    if (check_more(g, &R, T, cd) < 0)
        goto out;
out:
    if (HELD_DAG) {
        lattice_free(HELD_DAG);
        HELD_DAG = NULL;
    }
    /* a violation found on a partial result leaves the utterance open: close it, or the next case could not start one */
    if (D->acmod->state != ACMOD_ENDED && D->acmod->state != ACMOD_IDLE)
        (void)decoder_end_utt(D);
    if (mc_nviol != v0)
        return -1;
    return nontrivial;
}

/* ---------- case indexing ---------- */
static int ROUTES[NROUTES], NR;
static int NPAT = 2;

static int
run_index(long long idx, void *arg)
{
    dcase_t c;
    (void)arg;
    c.pattern = PATONLY >= 0 ? PATONLY : (int)(idx % NPAT);
    idx /= NPAT;
    c.u = (long)(idx % NUTT);
    idx /= NUTT;
    c.route = ROUTES[idx % NR];
    idx /= NR;
    c.g = (int)idx;
    return run_dcase(&c);
}

static int
run_index_announce(long long idx, void *arg)
{
    int rc;
    CUR_IDX = idx;
    rc = run_index(idx, arg);
    if (rc > 0 && mc_sh && (mc_sh->nontriv & (mc_sh->nontriv - 1)) == 0 && mc_sh->nontriv >= 8) {
        mc_nsamples = 0;
        mc_sample("%s => %s", mc_current, LAST_RESULT);
    }
    return rc;
}

static void
split(const char *s, const char **out, int *n, int max, char *buf, size_t bufn)
{
    size_t o = 0;
    *n = 0;
    while (*s && *n < max) {
        const char *e = strchr(s, ',');
        size_t l = e ? (size_t)(e - s) : strlen(s);
        if (o + l + 1 > bufn)
            break;
        memcpy(buf + o, s, l);
        buf[o + l] = 0;
        out[(*n)++] = buf + o;
        o += l + 1;
        if (!e)
            break;
        s = e + 1;
    }
}

/* parse "conf=.. route=R pattern=P grammar{...} utt{...}" (first occurrence of each field) and run it */
static int
replay_one(const char *cas)
{
    static gspec_t g1;
    static char wb[256];
    static char gprev[700];
    dcase_t c;
    char rname[32];
    const char *gp = strstr(cas, "grammar{"), *up = strstr(cas, "utt{"), *rp = strstr(cas, "route="), *pp = strstr(cas, "pattern=");
    static char gtxt[700], utxt[400];
    int T;
    if (!gp || !up || !rp || !pp)
        return -1;
    sscanf(rp, "route=%31s", rname);
    c.pattern = atoi(pp + 8);
    snprintf(gtxt, sizeof gtxt, "%s", gp + 8);
    if (!strchr(gtxt, '}'))
        return -1;
    *strchr(gtxt, '}') = 0;
    snprintf(utxt, sizeof utxt, "%s", up + 4);
    if (!strchr(utxt, '}'))
        return -1;
    *strchr(utxt, '}') = 0;
    /* as in the exploration, the grammar is loaded again only when it differs from the one before */
    if (strcmp(gtxt, gprev) != 0)
        CUR_G = -1;
    snprintf(gprev, sizeof gprev, "%s", gtxt);
    if (gs_parse(gtxt, &g1, wb, sizeof wb) < 0)
        return -1;
    GSET = &g1;
    NG = 1;
    c.g = 0;
    for (c.route = 0; c.route < NROUTES; c.route++)
        if (strcmp(ROUTE_NAME[c.route], rname) == 0)
            break;
    T = strncmp(utxt, "real:", 5) == 0 ? 0 : utt_parse(utxt, DC_FRAMESYM);
    if (T < 0)
        return -1;
    REPLAY_T = T;
    REPLAY_UTT = utxt;
    c.u = -1;
    run_dcase(&c);
    return 0;
}

int
main(int argc, char **argv)
{
    const char *cas = mc_arg(argc, argv, "--case", NULL);
    const char *props = mc_arg(argc, argv, "--props", "C01,C03");
    const char *gset = mc_arg(argc, argv, "--gset", "enum:2:2");
    const char *syms[MAXSYM];
    static char symbuf[128], routebuf[64], probbuf[64], lenbuf[32];
    const char *rts[NROUTES], *pbs[4], *lns[4];
    int nsym, nrt, npb, nln, shard = 0, nshard = 1, i, complete;
    long long total;

    mc_init();
    mc_install_crash_hooks();
    err_set_loglevel(ERR_FATAL);
    P_C01 = strstr(props, "C01") != NULL;
    P_C02 = strstr(props, "C02") != NULL;
    P_C03 = strstr(props, "C03") != NULL;
    P_C04 = strstr(props, "C04") != NULL;
    P_C11 = strstr(props, "C11") != NULL;
    P_C12 = strstr(props, "C12") != NULL;
    P_C14 = strstr(props, "C14") != NULL;
    sscanf(mc_arg(argc, argv, "--shard", "0/1"), "%d/%d", &shard, &nshard);

    memset(&CONF, 0, sizeof CONF);
    CONFNAME = mc_arg(argc, argv, "--conf", "default");
    if (strcmp(CONFNAME, "open") == 0) {
        CONF.beam = CONF.pbeam = CONF.wbeam = "0";
        CONF.maxhmmpf = -1;
        OPEN_BEAMS = 1;
    } else if (strcmp(CONFNAME, "tight") == 0) {
        CONF.beam = CONF.pbeam = "1e-10";
        CONF.wbeam = "1e-8";
    }
    CONF.usefiller = atoi(mc_arg(argc, argv, "--filler", "1"));
    CONF.usealt = atoi(mc_arg(argc, argv, "--alt", "1"));
    CONF.lw = mc_arg(argc, argv, "--lw", NULL);
    CONF.wip = mc_arg(argc, argv, "--wip", NULL);
    CONF.pip = mc_arg(argc, argv, "--pip", NULL);
    CONF.frate = atoi(mc_arg(argc, argv, "--frate", "0"));
    DC_ADDWORDS = atoi(mc_arg(argc, argv, "--addwords", "0"));
    REAL_MODE = atoi(mc_arg(argc, argv, "--real", "0"));
    DC_FULLDICT = atoi(mc_arg(argc, argv, "--fulldict", "0"));
    if (REAL_MODE) {
        FILE *rf = fopen("/repo/tests/data/goforward.raw", "rb");
        if (!rf)
            return 2;
        REALN = fread(REALAUD, 2, 60000, rf);
        fclose(rf);
        DC_INJECT = 0;
        if (strstr(props, "C01") || strstr(props, "C02") || strstr(props, "C03") || strstr(props, "C04") || strstr(props, "C14")) {
            fprintf(stderr, "--real is for the lattice properties only\n");
            return 2;
        }
    }
    {
        static char cn[160];
        snprintf(cn, sizeof cn, "%s/filler%d/alt%d/lw%s/wip%s/pip%s%s", CONFNAME, CONF.usefiller, CONF.usealt, CONF.lw ? CONF.lw : "-",
                 CONF.wip ? CONF.wip : "-", CONF.pip ? CONF.pip : "-", CONF.frate ? "/frate50" : "");
        CONFNAME = cn;
    }
    dc_write_dict();
    D = dc_make_decoder(&CONF);
    split(mc_arg(argc, argv, "--syms", "SIL,AH,G,OW,_"), syms, &nsym, MAXSYM, symbuf, sizeof symbuf);
    dc_init_scores(D->acmod->mdef, syms, nsym);
    split(mc_arg(argc, argv, "--words", "a,go"), WORDS, &NWORDS, 8, WORDBUF, sizeof WORDBUF);
    split(mc_arg(argc, argv, "--probs", "1"), pbs, &npb, 4, probbuf, sizeof probbuf);
    for (i = 0; i < npb; i++)
        PROBS[i] = atof(pbs[i]);
    NPROBS = npb;
    split(mc_arg(argc, argv, "--lens", "3,4"), lns, &nln, 4, lenbuf, sizeof lenbuf);
    for (i = 0; i < nln; i++)
        LENS[i] = atoi(lns[i]);
    NLENS = nln;
    SEGS = atoi(mc_arg(argc, argv, "--segs", "3"));
    split(mc_arg(argc, argv, "--routes", "api"), rts, &nrt, NROUTES, routebuf, sizeof routebuf);
    NR = 0;
    for (i = 0; i < nrt; i++) {
        int k;
        for (k = 0; k < NROUTES; k++)
            if (strcmp(rts[i], ROUTE_NAME[k]) == 0)
                ROUTES[NR++] = k;
    }
    NPAT = atoi(mc_arg(argc, argv, "--patterns", "3"));
    PATONLY = atoi(mc_arg(argc, argv, "--pattern", "-1")); /* one call pattern only (with --patterns 1) */
    NUTT = REAL_MODE ? NREAL : utt_count();
    unlink(DICT_PATH);

    if (cas) {
        /* replay: conf=.. route=R pattern=P grammar{...} utt{...} [<<after>> the case that ran before it] */
        const char *aft = strstr(cas, " <<after>> ");
        if (aft) {
            mc_mute = 1;
            if (replay_one(aft + 11) < 0)
                return 2;
            mc_mute = 0;
        }
        if (replay_one(cas) < 0)
            return 2;
        mc_finish();
        return 0;
    }
    if (strncmp(gset, "enum:", 5) == 0) {
        int ns, na;
        sscanf(gset, "enum:%d:%d", &ns, &na);
        build_enum_gset(ns, na);
    } else if (strcmp(gset, "special") == 0)
        build_special_gset();
    else if (strcmp(gset, "loop") == 0)
        build_loop_gset();
    else
        build_hand_gset();
    total = (long long)NG * NR * NUTT * NPAT;
    mc_sample("conf=%s: %d grammars (%s) x %d routes x %ld utterances (<=%d segments of %d symbols, lengths %d..) x %d call patterns = %lld cases", CONFNAME,
              NG, gset, NR, NUTT, SEGS, DC_NSYM, LENS[0], NPAT, total);
    mc_counter_names[0] = "reference_runs";
    mc_counter_names[1] = "reference_found_complete_path";
    mc_counter_names[2] = "decoder_ended_early";
    mc_counter_names[3] = "lattices";
    mc_counter_names[4] = "alignments";
    mc_counter_names[5] = "json_strings";
    mc_counter_names[6] = "nbest_hyps";
    mc_counter_names[7] = "reference_cells";
    mc_counter_names[8] = "lattices_too_dense_to_list_checked_by_dynamic_program";
    /* shard by grammar so that a child keeps its grammar for many cases */
    {
        long long per_g = (long long)NR * NUTT * NPAT;
        int g;
        complete = 1;
        for (g = shard; g < NG; g += nshard) {
            if (!mc_fork_loop(g * per_g, (g + 1) * per_g, 1, 4000, 20, run_index_announce, NULL)) {
                complete = 0;
                break;
            }
        }
    }
    mc_stat("evaluations", mc_sh ? mc_sh->evals : 0);
    mc_stat("nontrivial", mc_sh ? mc_sh->nontriv : 0);
    mc_stat("grammars", (NG - shard + nshard - 1) / nshard);
    for (i = 0; i < 16; i++)
        if (mc_counter_names[i] && mc_sh)
            mc_stat(mc_counter_names[i], mc_sh->counters[i]);
    mc_flag("exhaustive", complete);
    mc_finish();
    return 0;
}
