/* mc_decode_more.h -- oracles layered on the H7 exploration: C02 (optimality), C04 (alignment),
 * C14 (JSON), and through mc_decode_lattice.h C11/C12 (lattice, N-best). */
#ifndef MC_DECODE_MORE_H
#define MC_DECODE_MORE_H
#include "strict_json.h"
#include <malloc.h>
#include <soundswallower/alignment.h>

/* C02: with open beams the reported score equals the reference optimum; otherwise it never exceeds it.
 * The optimum ranges over alignments that consume all T frames and end in the final state. */
static int
check_c02(const dc_result_t *R, const rv_result *V, int T, const char *cd, const int16 *const *ssbf)
{
    char rs[1500];
    int last_ef = -1, i;
    (void)ssbf;
    dc_result_str(R, rs, sizeof rs);
    for (i = 0; i < R->nseg; i++)
        if (R->seg[i].ef > last_ef)
            last_ef = R->seg[i].ef;
    if (V->best <= RV_NEG)
        return 0; /* no complete alignment exists: the property is vacuous here (C01 judges what is returned) */
    if (!R->has_hyp && R->nseg == 0) {
        if (OPEN_BEAMS) {
            mc_viol("C02/no-result-although-a-complete-path-exists", cd, "beams open, reference optimum %d over %d frames, decoder returns nothing", V->best,
                    T);
            return -1;
        }
        return 0;
    }
    if (last_ef != T - 1) {
        mc_count(2, 1);
        if (OPEN_BEAMS) {
            mc_viol("C02/early-end", cd, "beams open: result ends at frame %d of %d although a complete alignment (score %d) exists; %s", last_ef, T,
                    V->best, rs);
            return -1;
        }
        return 0; /* with pruning the decoder may fall back to an earlier frame: not comparable */
    }
    if (R->score > V->best) {
        mc_viol("C02/score-exceeds-optimum", cd, "reported path score %d is better than the optimum %d over all alignments; %s", R->score, V->best, rs);
        return -1;
    }
    if (OPEN_BEAMS && R->score != V->best) {
        mc_viol("C02/open-beam-score-below-optimum", cd, "beams open: reported path score %d, true Viterbi optimum %d; %s", R->score, V->best, rs);
        return -1;
    }
    return 0;
}

/* the senone sequence a phone of an aligned word must use, from the model definition alone: cross-word contexts
 * are the last phone of the word before and the first phone of the word after in the alignment (silence at the
 * utterance boundaries), within-word contexts are the neighbouring phones of the pronunciation */
static int
c04_expected_ssid(int32 const *wids, int nw, int wi, int pj)
{
    dict_t *dict = D->dict;
    bin_mdef_t *m = D->acmod->mdef;
    int wid = wids[wi], len = dict_pronlen(dict, wid), sil = bin_mdef_silphone(m);
    int lc = wi > 0 ? dict_last_phone(dict, wids[wi - 1]) : sil, rc = wi + 1 < nw ? dict_first_phone(dict, wids[wi + 1]) : sil;
    int b = dict_pron(dict, wid, pj), pid;
    if (len == 1)
        pid = bin_mdef_phone_id_nearest(m, b, lc, rc, WORD_POSN_SINGLE);
    else if (pj == 0)
        pid = bin_mdef_phone_id_nearest(m, b, lc, dict_pron(dict, wid, 1), WORD_POSN_BEGIN);
    else if (pj == len - 1)
        pid = bin_mdef_phone_id_nearest(m, b, dict_pron(dict, wid, pj - 1), rc, WORD_POSN_END);
    else
        pid = bin_mdef_phone_id_nearest(m, b, dict_pron(dict, wid, pj - 1), dict_pron(dict, wid, pj + 1), WORD_POSN_INTERNAL);
    return bin_mdef_pid2ssid(m, pid);
}

/* ---------- C04: alignment hierarchy ---------- */
static int
check_c04(const dc_result_t *R, int T, const char *cd, const char *when)
{
    alignment_t *al = decoder_alignment(D), *al2;
    alignment_iter_t *w, *p, *s;
    char rs[1500];
    int wi = 0, next_frame = 0, i, last_ef = -1, nwids = 0;
    int32 wids[256];
    const char *early = "";
    dc_result_str(R, rs, sizeof rs);
    /* with pruning the first pass may fall back to a result that ends before the last frame searched */
    for (i = 0; i < R->nseg; i++)
        if (R->seg[i].ef > last_ef)
            last_ef = R->seg[i].ef;
    if (last_ef >= 0 && last_ef != T - 1)
        early = ":result-ends-before-last-frame";
    if (al == NULL) {
        int nreal = 0;
        for (i = 0; i < R->nseg; i++)
            if (strcmp(R->seg[i].word, "(NULL)") != 0)
                nreal++;
        if (nreal > 0) {
            char sig[96];
            snprintf(sig, sizeof sig, "C04/no-alignment-for-a-result%s", early);
            mc_viol(sig, cd, "%s: decoder_alignment returned NULL although the segmentation has %d words; %s", when, nreal, rs);
            return -1;
        }
        al2 = decoder_alignment(D);
        if (al2 != NULL) {
            mc_viol("C04/second-call-differs", cd, "%s: decoder_alignment failed, then succeeded without new audio", when);
            return -1;
        }
        return 0;
    }
    mc_count(4, 1);
    /* the aligned word sequence, for the context-dependent model each phone must use */
    for (w = alignment_words(al); w; w = alignment_iter_next(w))
        if (nwids < 256)
            wids[nwids++] = dict_wordid(D->dict, alignment_iter_name(w));
    /* words must be the dictionary words of the first-pass segmentation */
    i = 0;
    for (w = alignment_words(al); w; w = alignment_iter_next(w), wi++) {
        int ws, wd, wscore = alignment_iter_seg(w, &ws, &wd), pscore_sum = 0, pi = 0, pnext = ws;
        const char *wname = alignment_iter_name(w);
        char *pron, *tok, *save = NULL, pronbuf[256];
        while (i < R->nseg && strcmp(R->seg[i].word, "(NULL)") == 0)
            i++;
        if (i == R->nseg || strcmp(R->seg[i].word, wname) != 0 || R->seg[i].sf != ws || R->seg[i].ef - R->seg[i].sf + 1 != wd) {
            char sig[96];
            snprintf(sig, sizeof sig, "C04/words-differ-from-segmentation%s", early);
            mc_viol(sig, cd, "%s: alignment word %d is %s %d+%d, first-pass segment %d is %s %d-%d; %s", when, wi,
                    wname, ws, wd, i, i < R->nseg ? R->seg[i].word : "(none)", i < R->nseg ? R->seg[i].sf : -1, i < R->nseg ? R->seg[i].ef : -1, rs);
            alignment_iter_free(w);
            return -1;
        }
        i++;
        if (ws != next_frame || wd <= 0) {
            mc_viol("C04/words-not-contiguous", cd, "%s: word %d (%s) starts at %d with duration %d, expected start %d; %s", when, wi, wname, ws, wd,
                    next_frame, rs);
            alignment_iter_free(w);
            return -1;
        }
        next_frame = ws + wd;
        pron = decoder_lookup_word(D, wname);
        snprintf(pronbuf, sizeof pronbuf, "%s", pron ? pron : "");
        ckd_free(pron);
        tok = strtok_r(pronbuf, " ", &save);
        for (p = alignment_iter_children(w); p; p = alignment_iter_next(p), pi++) {
            int ps, pd, pscore = alignment_iter_seg(p, &ps, &pd), sscore_sum = 0, si = 0, snext = ps, ci, tm;
            const char *pname = alignment_iter_name(p);
            if (!tok || strcmp(tok, pname) != 0) {
                mc_viol("C04/phones-differ-from-pronunciation", cd, "%s: word %s phone %d is %s, dictionary says %s", when, wname, pi, pname,
                        tok ? tok : "(end)");
                alignment_iter_free(p);
                alignment_iter_free(w);
                return -1;
            }
            tok = strtok_r(NULL, " ", &save);
            if (ps != pnext || pd <= 0) {
                mc_viol("C04/phones-do-not-partition-word", cd, "%s: word %s phone %d (%s) starts at %d with duration %d, expected start %d; %s", when,
                        wname, pi, pname, ps, pd, pnext, rs);
                alignment_iter_free(p);
                alignment_iter_free(w);
                return -1;
            }
            pnext = ps + pd;
            if (wi < nwids && wids[wi] >= 0 && pi < dict_pronlen(D->dict, wids[wi])
                && alignment_iter_get(p)->id.pid.ssid != c04_expected_ssid(wids, nwids, wi, pi)) {
                mc_viol("C04/phone-model-is-not-the-phones-model-in-context", cd,
                        "%s: word %d (%s) phone %d (%s) is aligned with senone sequence %d, the model definition gives %d for its context; %s", when, wi, wname, pi,
                        pname, alignment_iter_get(p)->id.pid.ssid, c04_expected_ssid(wids, nwids, wi, pi), rs);
                alignment_iter_free(p);
                alignment_iter_free(w);
                return -1;
            }
            ci = bin_mdef_ciphone_id(D->acmod->mdef, pname);
            tm = bin_mdef_pid2tmatid(D->acmod->mdef, ci);
            for (s = alignment_iter_children(p); s; s = alignment_iter_next(s), si++) {
                int ss, sd, sscore = alignment_iter_seg(s, &ss, &sd), expect = 0, t;
                int senid = atoi(alignment_iter_name(s));
                uint8 **tp = D->acmod->tmat->tp[tm];
                if (ss != snext || sd <= 0) {
                    mc_viol("C04/states-do-not-partition-phone", cd, "%s: word %s phone %s state %d starts at %d with duration %d, expected start %d; %s",
                            when, wname, pname, si, ss, sd, snext, rs);
                    alignment_iter_free(s);
                    alignment_iter_free(p);
                    alignment_iter_free(w);
                    return -1;
                }
                snext = ss + sd;
                if (senid != D->acmod->mdef->sseq[alignment_iter_get(p)->id.pid.ssid][si]) {
                    mc_viol("C04/state-is-not-the-phones-emitting-state", cd, "%s: word %s phone %s state %d is senone %d", when, wname, pname, si, senid);
                    alignment_iter_free(s);
                    alignment_iter_free(p);
                    alignment_iter_free(w);
                    return -1;
                }
                /* independent recomputation: emissions over the state's frames, self-loops, and the transition out */
                for (t = ss; t < ss + sd && t < T; t++)
                    expect -= DC_SCORES[DC_FRAMESYM[t]][senid];
                expect -= (sd - 1) * tp[si][si];
                expect -= tp[si][si + 1];
                if (DC_INJECT && sscore != expect) {
                    mc_viol("C04/state-score-differs-from-recomputation", cd,
                            "%s: word %s phone %s state %d (senone %d, frames %d+%d): score %d, emissions + transitions give %d; %s", when, wname,
                            pname, si, senid, ss, sd, sscore, expect, rs);
                    alignment_iter_free(s);
                    alignment_iter_free(p);
                    alignment_iter_free(w);
                    return -1;
                }
                sscore_sum += sscore;
            }
            if (si != bin_mdef_n_emit_state(D->acmod->mdef) || snext != ps + pd) {
                mc_viol("C04/states-do-not-partition-phone", cd, "%s: word %s phone %s has %d states covering up to frame %d, phone spans %d+%d", when,
                        wname, pname, si, snext, ps, pd);
                alignment_iter_free(p);
                alignment_iter_free(w);
                return -1;
            }
            if (pscore != sscore_sum) {
                mc_viol("C04/parent-score-not-sum-of-children", cd, "%s: word %s phone %s score %d, its states sum to %d", when, wname, pname, pscore,
                        sscore_sum);
                alignment_iter_free(p);
                alignment_iter_free(w);
                return -1;
            }
            pscore_sum += pscore;
        }
        if (tok != NULL || pnext != ws + wd) {
            mc_viol("C04/phones-do-not-partition-word", cd, "%s: word %s: phones end at frame %d, word spans %d+%d%s", when, wname, pnext, ws, wd,
                    tok ? " (pronunciation has more phones)" : "");
            alignment_iter_free(w);
            return -1;
        }
        if (wscore != pscore_sum) {
            mc_viol("C04/parent-score-not-sum-of-children", cd, "%s: word %s score %d, its phones sum to %d", when, wname, wscore, pscore_sum);
            alignment_iter_free(w);
            return -1;
        }
    }
    while (i < R->nseg && strcmp(R->seg[i].word, "(NULL)") == 0)
        i++;
    if (i != R->nseg) {
        mc_viol("C04/words-differ-from-segmentation", cd, "%s: alignment has %d words, the segmentation has more; %s", when, wi, rs);
        return -1;
    }
    al2 = decoder_alignment(D);
    if (al2 != al) {
        mc_viol("C04/second-call-differs", cd, "%s: a second decoder_alignment call without new audio returned a different object", when);
        return -1;
    }
    return 0;
}

/* ---------- C14: JSON ---------- */
static int
json_num_is(sj_node *n, double v, const char *what, const char *cd, const char *ctx)
{
    char expect[64];
    snprintf(expect, sizeof expect, "%.3f", v);
    if (!n || n->type != SJ_NUM || strcmp(n->str, expect) != 0) {
        mc_viol("C14/field-differs-from-iterators", cd, "%s: field \"%s\" is %s, the interfaces give %s", ctx, what,
                n ? (n->str ? n->str : "(not a number)") : "(missing)", expect);
        return 0;
    }
    return 1;
}

static int
json_str_is(sj_node *n, const char *v, const char *what, const char *cd, const char *ctx)
{
    if (!n || n->type != SJ_STR || strcmp(n->str, v) != 0) {
        mc_viol("C14/field-differs-from-iterators", cd, "%s: field \"%s\" is \"%s\", the interfaces give \"%s\"", ctx, what,
                n && n->str ? n->str : "(missing)", v);
        return 0;
    }
    return 1;
}

static int
json_align_level(sj_node *arr, alignment_iter_t *it, double start, int frate, int levels_below, const char *cd, const char *ctx)
{
    /* arr: JSON array; it: iterator over the corresponding alignment entries (consumed) */
    sj_node *e = arr ? arr->child : NULL;
    int k = 0;
    if (!arr || arr->type != SJ_ARR) {
        mc_viol("C14/field-differs-from-iterators", cd, "%s: \"w\" list missing", ctx);
        if (it)
            alignment_iter_free(it);
        return 0;
    }
    for (; it; it = alignment_iter_next(it), e = e->next, k++) {
        int s, d, score = alignment_iter_seg(it, &s, &d);
        const char *name = alignment_iter_name(it);
        char c2[200];
        snprintf(c2, sizeof c2, "%s[%d]", ctx, k);
        if (!e) {
            mc_viol("C14/field-differs-from-iterators", cd, "%s: list has %d entries, the alignment has more", ctx, k);
            alignment_iter_free(it);
            return 0;
        }
        if (!json_str_is(sj_get(e, "t"), name ? name : "", "t", cd, c2) || !json_num_is(sj_get(e, "b"), start + (double)s / frate, "b", cd, c2)
            || !json_num_is(sj_get(e, "d"), (double)d / frate, "d", cd, c2)
            || !json_num_is(sj_get(e, "p"), logmath_exp(decoder_logmath(D), score), "p", cd, c2)) {
            alignment_iter_free(it);
            return 0;
        }
        if (levels_below > 0) {
            if (!json_align_level(sj_get(e, "w"), alignment_iter_children(it), start, frate, levels_below - 1, cd, c2)) {
                alignment_iter_free(it);
                return 0;
            }
        } else if (sj_get(e, "w")) {
            mc_viol("C14/field-differs-from-iterators", cd, "%s: unexpected nested list", c2);
            alignment_iter_free(it);
            return 0;
        }
    }
    if (e) {
        mc_viol("C14/field-differs-from-iterators", cd, "%s: list has more entries than the alignment (%d)", ctx, k);
        return 0;
    }
    return 1;
}

static int
check_c14(const dc_result_t *R, const char *cd, const char *when)
{
    /* the given offset: none, a small one, a negative one, 5.5 hours and a week (where single precision no longer resolves milliseconds) */
    static const double starts[5] = { 0.0, 1.5, -2.25, 20000.46, 604800.003 };
    int level, si, frate = (int)config_int(D->config, "frate"), i;
    for (level = 0; level <= 2; level++)
        for (si = 0; si < 5; si++) {
            double start = starts[si];
            const char *js = decoder_result_json(D, start, level), *tail;
            char ctx[96], shown[400];
            sj_node *root, *w, *e;
            size_t len;
            snprintf(ctx, sizeof ctx, "%s, level %d, start %.3f", when, level, start);
            if (js == NULL) {
                if (level == 0) {
                    mc_viol("C14/no-json", cd, "%s: decoder_result_json returned NULL", ctx);
                    return -1;
                }
                if (decoder_alignment(D) != NULL) {
                    mc_viol("C14/no-json", cd, "%s: decoder_result_json returned NULL although an alignment exists", ctx);
                    return -1;
                }
                continue;
            }
            mc_count(5, 1);
            len = strlen(js);
            snprintf(shown, sizeof shown, "%.380s", js);
            root = sj_parse(js, &tail);
            if (!root || root->type != SJ_OBJ) {
                mc_viol("C14/invalid-json", cd, "%s: %s at offset %ld: %s", ctx, sj_err ? sj_err : "not an object", sj_errpos ? (long)(sj_errpos - js) : 0L,
                        shown);
                return -1;
            }
            if (strcmp(tail, "\n") != 0) {
                mc_viol("C14/not-one-newline-terminated-object", cd, "%s: the object is followed by %zu bytes instead of one newline: %s", ctx, strlen(tail),
                        shown);
                return -1;
            }
#if defined(__SANITIZE_ADDRESS__)
            if (malloc_usable_size((void *)js) != len + 1) {
                mc_viol("C14/length-differs-from-allocation", cd, "%s: string needs %zu bytes, %zu were allocated", ctx, len + 1,
                        malloc_usable_size((void *)js));
                return -1;
            }
#endif
            if (!json_str_is(sj_get(root, "t"), R->has_hyp ? R->hyp : "", "t", cd, ctx) || !json_num_is(sj_get(root, "b"), start, "b", cd, ctx)
                || !json_num_is(sj_get(root, "d"), (double)decoder_n_frames(D) / frate, "d", cd, ctx))
                return -1;
            w = sj_get(root, "w");
            if (!w || w->type != SJ_ARR) {
                mc_viol("C14/field-differs-from-iterators", cd, "%s: no \"w\" list", ctx);
                return -1;
            }
            if (level == 0) {
                for (i = 0, e = w->child; i < R->nseg; i++, e = e->next) {
                    char c2[128];
                    snprintf(c2, sizeof c2, "%s, w[%d]", ctx, i);
                    if (!e) {
                        mc_viol("C14/field-differs-from-iterators", cd, "%s: %d entries, the segmentation has %d", ctx, i, R->nseg);
                        return -1;
                    }
                    if (!json_str_is(sj_get(e, "t"), R->seg[i].word, "t", cd, c2)
                        || !json_num_is(sj_get(e, "b"), start + (double)R->seg[i].sf / frate, "b", cd, c2)
                        || !json_num_is(sj_get(e, "d"), (double)(R->seg[i].ef + 1 - R->seg[i].sf) / frate, "d", cd, c2)
                        || !json_num_is(sj_get(e, "p"), logmath_exp(decoder_logmath(D), R->seg[i].prob), "p", cd, c2))
                        return -1;
                }
                if (e) {
                    mc_viol("C14/field-differs-from-iterators", cd, "%s: more entries than the segmentation's %d", ctx, R->nseg);
                    return -1;
                }
            } else {
                alignment_t *al = decoder_alignment(D);
                if (!al || !json_align_level(w, alignment_words(al), start, frate, level, cd, ctx))
                    return -1;
            }
        }
    return 0;
}

#include "mc_decode_lattice.h"

static int
check_more(const gspec_t *g, const dc_result_t *R, int T, const char *cd)
{
    if (P_C04 && check_c04(R, T, cd, "final result") < 0)
        return -1;
    if (P_C14 && check_c14(R, cd, "final result") < 0)
        return -1;
    if ((P_C11 || P_C12) && check_lattice(g, R, T, cd, "final result") < 0)
        return -1;
    return 0;
}
#endif
