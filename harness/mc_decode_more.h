/* mc_decode_more.h -- oracles layered on the H7 exploration: C02 (optimality), and later C04, C11, C12, C14 */
#ifndef MC_DECODE_MORE_H
#define MC_DECODE_MORE_H

/* C02: with open beams the reported score equals the reference optimum; otherwise it never exceeds it.
 * The optimum ranges over alignments that consume all T frames and end in the final state. */
static int
check_c02(const dc_result_t *R, const rv_result *V, int T, const char *cd, const int16 *const *ssbf)
{
    char rs[1500];
    int last_ef = -1, i;
    (void)ssbf;
    dc_result_str(R, rs, sizeof rs);
    for (i = 0; i < R->nseg; i++)
        if (R->seg[i].ef > last_ef)
            last_ef = R->seg[i].ef;
    if (V->best <= RV_NEG)
        return 0; /* no complete alignment exists: the property is vacuous here (C01 judges what is returned) */
    if (!R->has_hyp && R->nseg == 0) {
        if (OPEN_BEAMS) {
            mc_viol("C02/no-result-although-a-complete-path-exists", cd, "beams open, reference optimum %d over %d frames, decoder returns nothing", V->best,
                    T);
            return -1;
        }
        return 0;
    }
    if (last_ef != T - 1) {
        mc_count(2, 1);
        if (OPEN_BEAMS) {
            mc_viol("C02/early-end", cd, "beams open: result ends at frame %d of %d although a complete alignment (score %d) exists; %s", last_ef, T,
                    V->best, rs);
            return -1;
        }
        return 0; /* with pruning the decoder may fall back to an earlier frame: not comparable */
    }
    if (R->score > V->best) {
        mc_viol("C02/score-exceeds-optimum", cd, "reported path score %d is better than the optimum %d over all alignments; %s", R->score, V->best, rs);
        return -1;
    }
    if (OPEN_BEAMS && R->score != V->best) {
        mc_viol("C02/open-beam-score-below-optimum", cd, "beams open: reported path score %d, true Viterbi optimum %d; %s", R->score, V->best, rs);
        return -1;
    }
    return 0;
}

static int
check_more(const gspec_t *g, const dc_result_t *R, int T, const char *cd)
{
    (void)g;
    (void)R;
    (void)T;
    (void)cd;
    return 0;
}
#endif
