/* H11 mc_modelfault -- C17: damaged acoustic-model files are rejected without memory errors.
 * Fault enumeration on decoder_init end to end: for one target file of a model, every truncation length in the
 * header and the first 4 KiB of payload, on a stride through the rest and at the tail; every 32-bit word of the
 * first 256 payload bytes (where counts and dimensions live) set to each of {0, 1, v-1, v+1, 2v, 0x7fffffff,
 * 0xffffffff, byte-swapped v}; byte-order magic and trailing checksum flipped; the file missing.  The seam is
 * s3file_map_file (--wrap): the library sees an s3file over an EXACT-SIZE heap copy of the (damaged) file, so
 * ASan reports every read outside the file's bytes.  feat_params.json is read with stdio and is damaged on disk.
 * After every fault an intact model must load and decode the probe utterance to the known digest.
 *
 * usage: mc_modelfault --model en-us|fr-fr --file mdef|means|variances|sendump|transition_matrices|noisedict|featparams|lda
 *                      [--mmap 0|1] [--stride N] [--shard i/n] [--case "<fault>"]
 */
#include "../engine/mc.h"
#include <errno.h>
#include "synth_model.h"
#include <soundswallower/decoder.h>
#include <soundswallower/err.h>
#include <soundswallower/s3file.h>
#include <sys/stat.h>

#ifndef REPOROOT
#define REPOROOT "/repo"
#endif

static char MODELDIR_[512];
static const char *MODELNAME = "";
static const char *TARGET; /* file name inside the model directory */
static char TARGET_PATH[600];
static unsigned char *ORIG;
static size_t ORIGLEN;
static int USE_MMAP;
static char DICT_PATH[512], FEATPARAMS_PATH[600], LDA_PATH[600];
static int16 AUD[20000];
static size_t NAUD;

/* ---------- the fault in force ---------- */
enum { FK_NONE, FK_MISSING, FK_TRUNC, FK_WORD, FK_FLIP, FK_ABSENT };
typedef struct {
    int kind;
    size_t off;
    uint32_t val;
} fault_t;
static fault_t FAULT;

static unsigned char *
damaged_copy(size_t *len)
{
    unsigned char *p;
    size_t n = ORIGLEN;
    if (FAULT.kind == FK_TRUNC)
        n = FAULT.off;
    p = malloc(n ? n : 1);
    memcpy(p, ORIG, n);
    if (FAULT.kind == FK_WORD && FAULT.off + 4 <= n)
        memcpy(p + FAULT.off, &FAULT.val, 4);
    if (FAULT.kind == FK_FLIP && FAULT.off < n)
        p[FAULT.off] ^= (unsigned char)FAULT.val;
    *len = n;
    return p;
}

/* "absent": the file is not in the model directory, so the library's own existence test (fopen) fails and no path is configured for it */
FILE *__real_fopen(const char *path, const char *mode);
FILE *
__wrap_fopen(const char *path, const char *mode)
{
    if (path && TARGET && FAULT.kind == FK_ABSENT && strcmp(path, TARGET_PATH) == 0) {
        errno = ENOENT;
        return NULL;
    }
    return __real_fopen(path, mode);
}

/* the library's s3file over heap copies; the copies are released when the decoder attempt is over */
static void *HEAPS[64];
static int NHEAPS;
s3file_t *__real_s3file_map_file(const char *filename);
s3file_t *
__wrap_s3file_map_file(const char *filename)
{
    if (filename == NULL)
        return __real_s3file_map_file(filename); /* whatever the library does with that */
    if (TARGET && strcmp(filename, TARGET_PATH) == 0 && FAULT.kind != FK_NONE) {
        unsigned char *p;
        size_t n;
        if (FAULT.kind == FK_MISSING || FAULT.kind == FK_ABSENT)
            return NULL;
        p = damaged_copy(&n);
        if (NHEAPS < 64)
            HEAPS[NHEAPS++] = p;
        return s3file_init(p, n);
    }
    /* intact files: also exact-size heap copies, so over-reads are visible everywhere */
    {
        FILE *fp = fopen(filename, "rb");
        unsigned char *p;
        long n;
        if (!fp)
            return NULL;
        fseek(fp, 0, SEEK_END);
        n = ftell(fp);
        fseek(fp, 0, SEEK_SET);
        p = malloc(n > 0 ? (size_t)n : 1);
        if (fread(p, 1, (size_t)n, fp) != (size_t)n) {
            fclose(fp);
            free(p);
            return NULL;
        }
        fclose(fp);
        if (NHEAPS < 64)
            HEAPS[NHEAPS++] = p;
        return s3file_init(p, (size_t)n);
    }
}

static void
release_heaps(void)
{
    while (NHEAPS > 0)
        free(HEAPS[--NHEAPS]);
}

static void
fault_desc(const fault_t *f, char *buf, size_t n)
{
    switch (f->kind) {
    case FK_MISSING: snprintf(buf, n, "model=%s file=%s mmap=%d fault=missing", MODELNAME, TARGET, USE_MMAP); break;
    case FK_ABSENT: snprintf(buf, n, "model=%s file=%s mmap=%d fault=absent", MODELNAME, TARGET, USE_MMAP); break;
    case FK_TRUNC: snprintf(buf, n, "model=%s file=%s mmap=%d fault=truncate@%zu", MODELNAME, TARGET, USE_MMAP, f->off); break;
    case FK_WORD: snprintf(buf, n, "model=%s file=%s mmap=%d fault=word@%zu=0x%08x", MODELNAME, TARGET, USE_MMAP, f->off, f->val); break;
    case FK_FLIP: snprintf(buf, n, "model=%s file=%s mmap=%d fault=flip@%zu^0x%02x", MODELNAME, TARGET, USE_MMAP, f->off, f->val); break;
    default: snprintf(buf, n, "model=%s file=%s mmap=%d fault=none", MODELNAME, TARGET, USE_MMAP);
    }
}

static int
fault_parse(const char *s, fault_t *f)
{
    const char *p = strstr(s, "fault=");
    memset(f, 0, sizeof *f);
    if (!p)
        return -1;
    p += 6;
    if (strncmp(p, "absent", 6) == 0)
        f->kind = FK_ABSENT;
    else if (strncmp(p, "missing", 7) == 0)
        f->kind = FK_MISSING;
    else if (sscanf(p, "truncate@%zu", &f->off) == 1)
        f->kind = FK_TRUNC;
    else if (sscanf(p, "word@%zu=0x%x", &f->off, &f->val) == 2)
        f->kind = FK_WORD;
    else if (sscanf(p, "flip@%zu^0x%x", &f->off, &f->val) == 2)
        f->kind = FK_FLIP;
    else if (strncmp(p, "none", 4) == 0)
        f->kind = FK_NONE;
    else
        return -1;
    return 0;
}

/* --model synth-semi|synth-ms|synth-mixw: parameter files written by the harness (synth_model.h), so that the loaders
 * the bundled models never select (s2_semi_mgau, ms_mgau/ms_senone, ptm_mgau from mixture_weights) meet damaged files */
static int SYNTH_MS, SYNTH, HAS_CHKSUM;
static size_t HDR_END, COUNT_BYTES; /* where the count words of a file without a checksum are (senone dump: rows, columns) */
static void
synth_cleanup(void)
{
    if (SYNTH && !mc_child_mode)
        rm_model(MODELDIR_);
}

/* ---------- decoder attempt + probe ---------- */
static decoder_t *
try_init(void)
{
    config_t *cfg = config_init(NULL);
    decoder_t *d;
    config_set_str(cfg, "hmm", MODELDIR_);
    config_set_str(cfg, "dict", DICT_PATH);
    config_set_str(cfg, "loglevel", "FATAL");
    config_set_bool(cfg, "mmap", USE_MMAP);
    if (SYNTH_MS)
        config_set_str(cfg, "senmgau", ".semi.");
    if (FEATPARAMS_PATH[0])
        config_set_str(cfg, "featparams", FEATPARAMS_PATH);
    if (LDA_PATH[0])
        config_set_str(cfg, "lda", LDA_PATH);
    d = decoder_init(cfg);
    return d;
}

static int
probe(decoder_t *d, char *buf, size_t n)
{
    int32 sc = 0;
    const char *h;
    seg_iter_t *it;
    size_t o;
    if (decoder_set_align_text(d, "a a") < 0)
        return -1;
    if (decoder_start_utt(d) < 0 || decoder_process_int16(d, AUD, NAUD, 0, 1) < 0 || decoder_end_utt(d) < 0)
        return -2;
    h = decoder_hyp(d, &sc);
    o = snprintf(buf, n, "hyp=%s score=%d", h ? h : "NULL", sc);
    for (it = decoder_seg_iter(d); it; it = seg_iter_next(it)) {
        int sf, ef;
        seg_iter_frames(it, &sf, &ef);
        if (o + 48 < n)
            o += snprintf(buf + o, n - o, " [%s %d-%d]", seg_iter_word(it), sf, ef);
    }
    return 0;
}

static char INTACT[2048];

static void
write_featparams(const unsigned char *data, size_t len)
{
    FILE *fp = fopen(FEATPARAMS_PATH, "wb");
    fwrite(data, 1, len, fp);
    fclose(fp);
}

static fault_t *FAULTS;
static long NFAULTS, FAULTCAP;
static void
add_fault(int kind, size_t off, uint32_t val)
{
    if (NFAULTS == FAULTCAP) {
        FAULTCAP = FAULTCAP ? FAULTCAP * 2 : 4096;
        FAULTS = realloc(FAULTS, sizeof(fault_t) * FAULTCAP);
    }
    FAULTS[NFAULTS].kind = kind;
    FAULTS[NFAULTS].off = off;
    FAULTS[NFAULTS].val = val;
    NFAULTS++;
}

static int IS_FEATPARAMS;
static long long CUR_IDX;

static int
run_fault(const fault_t *f)
{
    char cd[700], got[2048];
    decoder_t *d;
    size_t a0;
    long long v0 = mc_nviol;
    int accepted = 0;
    fault_desc(f, cd, sizeof cd);
    mc_case_begin(CUR_IDX, cd);
    a0 = MC_ALLOCATED();
    FAULT = *f;
    if (IS_FEATPARAMS) {
        size_t n;
        unsigned char *p;
        if (f->kind == FK_MISSING || f->kind == FK_ABSENT)
            unlink(FEATPARAMS_PATH);
        else {
            p = damaged_copy(&n);
            write_featparams(p, n);
            free(p);
        }
    }
    d = try_init();
    if (d) {
        int rc = probe(d, got, sizeof got);
        accepted = 1;
        /* only a file that carries a checksum can be expected to notice damaged DATA; the senone dump has none */
        if (rc == 0 && strcmp(got, INTACT) != 0 && !IS_FEATPARAMS
            && (HAS_CHKSUM || (f->kind == FK_WORD && f->off >= HDR_END && f->off < HDR_END + COUNT_BYTES))) {
            mc_viol("C17/damaged-file-accepted-and-changes-results", cd, "initialisation succeeded with the damaged file and the probe decodes to %s instead of %s", got,
                    INTACT);
        }
        decoder_free(d);
    } else if (f->kind == FK_NONE) {
        mc_viol("C17/intact-model-rejected", cd, "decoder_init failed on the intact model");
    }
    release_heaps();
    if (f->kind == FK_TRUNC && accepted && f->off < ORIGLEN && !IS_FEATPARAMS && strcmp(TARGET, "noisedict.txt") != 0) {
        /* accepted although bytes are missing: only legitimate if the loader never needs them; that shows as an
         * identical digest above, so nothing further to report here */
    }
    /* afterwards the intact model loads normally and decodes to the known digest */
    FAULT.kind = FK_NONE;
    if (IS_FEATPARAMS)
        write_featparams(ORIG, ORIGLEN);
    if (mc_nviol == v0) {
        d = try_init();
        if (!d && strcmp(INTACT, "(rejected)") == 0)
            ; /* this file never fits the model: only its safe rejection is probed */
        else if (!d)
            mc_viol("C17/intact-model-fails-after-a-fault", cd, "after this fault decoder_init fails on the intact model");
        else {
            if (probe(d, got, sizeof got) < 0 || strcmp(got, INTACT) != 0)
                mc_viol("C17/intact-model-differs-after-a-fault", cd, "after this fault the intact model decodes the probe to %s instead of %s", got, INTACT);
            decoder_free(d);
        }
        release_heaps();
    }
    if (mc_nviol == v0 && MC_ALLOCATED() != a0)
        mc_viol("C17/leak", cd, "%ld bytes still allocated after the failed and the successful initialisation were cleaned up", (long)(MC_ALLOCATED() - a0));
    return mc_nviol != v0 ? -1 : !accepted;
}

static int
run_index(long long idx, void *arg)
{
    (void)arg;
    CUR_IDX = idx;
    return run_fault(&FAULTS[idx]);
}

static size_t
header_end(void)
{
    /* s3 binary files: text header up to "endhdr\n"; senone dumps: the length-prefixed title and header strings up to the
     * empty one (the row and column counts follow); other files: 0 */
    size_t i;
    for (i = 0; i + 7 <= ORIGLEN && i < 4096; i++)
        if (memcmp(ORIG + i, "endhdr\n", 7) == 0)
            return i + 7;
    if (strcmp(TARGET, "mdef") == 0 && ORIGLEN > 12 && memcmp(ORIG, "BMDF", 4) == 0) {
        /* binary model definition: magic, version, length of the format description, the description; the ten count words follow */
        uint32_t n;
        memcpy(&n, ORIG + 8, 4);
        if (n < 65536 && 12 + (size_t)n < ORIGLEN)
            return 12 + n;
    }
    if (strcmp(TARGET, "sendump") == 0) {
        i = 0;
        while (i + 4 <= ORIGLEN) {
            uint32_t n;
            memcpy(&n, ORIG + i, 4);
            if (n == 0)
                return i + 4;
            if (n > 4096 || i + 4 + n > ORIGLEN)
                break;
            i += 4 + n;
        }
    }
    return 0;
}

int
main(int argc, char **argv)
{
    const char *cas = mc_arg(argc, argv, "--case", NULL), *model = mc_arg(argc, argv, "--model", "en-us"), *file = mc_arg(argc, argv, "--file", "means");
    int shard = 0, nshard = 1, complete;
    size_t stride = (size_t)atol(mc_arg(argc, argv, "--stride", "4096")), dense = (size_t)atol(mc_arg(argc, argv, "--dense", "4096")), he, i;
    FILE *fp;
    mc_init();
    mc_install_crash_hooks();
    err_set_loglevel(ERR_FATAL);
    sscanf(mc_arg(argc, argv, "--shard", "0/1"), "%d/%d", &shard, &nshard);
    USE_MMAP = atoi(mc_arg(argc, argv, "--mmap", "1"));
    snprintf(MODELDIR_, sizeof MODELDIR_, REPOROOT "/model/%s", model);
    MODELNAME = model;
    if (strncmp(model, "synth-", 6) == 0) {
        snprintf(MODELDIR_, sizeof MODELDIR_, "%s.%d.model", getenv("MC_OUT") ? getenv("MC_OUT") : "/var/tmp/mc_modelfault", (int)getpid());
        rm_model(MODELDIR_);
        if (gen_model(MODELDIR_, model + 6) < 0) {
            fprintf(stderr, "cannot write the synthetic model in %s\n", MODELDIR_);
            return 2;
        }
        SYNTH = 1;
        SYNTH_MS = strcmp(model, "synth-ms") == 0;
        atexit(synth_cleanup);
    }
    {
        const char *out = getenv("MC_OUT");
        snprintf(DICT_PATH, sizeof DICT_PATH, "%s.%d.dic", out ? out : "/var/tmp/mc_modelfault", (int)getpid());
        fp = fopen(DICT_PATH, "w");
        fputs(strcmp(model, "fr-fr") == 0 ? "a aa\nb bb ei\n" : "a AH\nb B IY\n", fp);
        fclose(fp);
    }
    if (strcmp(file, "featparams") == 0) {
        IS_FEATPARAMS = 1;
        TARGET = "feat_params.json";
        snprintf(FEATPARAMS_PATH, sizeof FEATPARAMS_PATH, "%s.%d.featparams.json", getenv("MC_OUT") ? getenv("MC_OUT") : "/var/tmp/mc_modelfault", (int)getpid());
        snprintf(TARGET_PATH, sizeof TARGET_PATH, "%s/feat_params.json", MODELDIR_);
    } else if (strcmp(file, "lda") == 0) {
        TARGET = "feature_transform";
        snprintf(LDA_PATH, sizeof LDA_PATH, REPOROOT "/tests/data/feature_transform");
        snprintf(TARGET_PATH, sizeof TARGET_PATH, "%s", LDA_PATH);
    } else {
        TARGET = strcmp(file, "noisedict") == 0 ? "noisedict.txt" : file;
        snprintf(TARGET_PATH, sizeof TARGET_PATH, "%s/%s", MODELDIR_, TARGET);
    }
    fp = fopen(TARGET_PATH, "rb");
    if (!fp) {
        perror(TARGET_PATH);
        return 2;
    }
    fseek(fp, 0, SEEK_END);
    ORIGLEN = (size_t)ftell(fp);
    fseek(fp, 0, SEEK_SET);
    ORIG = malloc(ORIGLEN + 1);
    if (fread(ORIG, 1, ORIGLEN, fp) != ORIGLEN)
        return 2;
    fclose(fp);
    {
        size_t k;
        for (k = 0; k + 7 <= ORIGLEN && k < 4096; k++)
            if (memcmp(ORIG + k, "chksum0", 7) == 0)
                HAS_CHKSUM = 1;
    }
    if (IS_FEATPARAMS)
        write_featparams(ORIG, ORIGLEN);
    fp = fopen(REPOROOT "/tests/data/goforward.raw", "rb");
    if (!fp)
        return 2;
    fseek(fp, 12000, SEEK_SET);
    NAUD = fread(AUD, 2, 8000, fp);
    fclose(fp);
    /* the intact digest */
    {
        decoder_t *d;
        FAULT.kind = FK_NONE;
        mc_set_current("intact model");
        d = try_init();
        if (!d || probe(d, INTACT, sizeof INTACT) < 0) {
            /* the LDA file of tests/data does not fit the bundled models' feature type: then it is only probed for safe rejection */
            if (!LDA_PATH[0]) {
                fprintf(stderr, "intact model does not load\n");
                return 2;
            }
            snprintf(INTACT, sizeof INTACT, "(rejected)");
        }
        if (d)
            decoder_free(d);
        release_heaps();
    }
    HDR_END = header_end();
    COUNT_BYTES = strcmp(TARGET, "sendump") == 0 ? 8 : 0;
    if (cas) {
        fault_t f;
        if (fault_parse(cas, &f) < 0)
            return 2;
        CUR_IDX = 0;
        run_fault(&f);
        unlink(DICT_PATH);
        if (IS_FEATPARAMS)
            unlink(FEATPARAMS_PATH);
        mc_finish();
        return 0;
    }
    he = header_end();
    add_fault(FK_MISSING, 0, 0);
    add_fault(FK_ABSENT, 0, 0); /* not in the model directory at all: the library never learns a path for it */
    /* truncations: header and first 4 KiB of payload byte by byte, stride through the bulk, tail */
    for (i = 0; i < ORIGLEN && i < he + dense; i++)
        add_fault(FK_TRUNC, i, 0);
    for (i = he + dense; i < ORIGLEN; i += stride)
        add_fault(FK_TRUNC, i, 0);
    for (i = 1; i <= 16 && i < ORIGLEN; i++)
        add_fault(FK_TRUNC, ORIGLEN - i, 0);
    /* 32-bit words of the first 256 payload bytes; in the model definition only the ten count words: what follows them
     * (phone names, the context tree) is data without a checksum, outside the fault model of the property */
    if (!IS_FEATPARAMS && strcmp(TARGET, "noisedict.txt") != 0)
        for (i = he; i + 4 <= ORIGLEN && i < he + (strcmp(TARGET, "mdef") == 0 ? 40 : 256); i += 4) {
            uint32_t v, vals[8];
            int k;
            memcpy(&v, ORIG + i, 4);
            vals[0] = 0;
            vals[1] = 1;
            vals[2] = v - 1;
            vals[3] = v + 1;
            vals[4] = v * 2;
            vals[5] = 0x7fffffffu;
            vals[6] = 0xffffffffu;
            vals[7] = (v >> 24) | ((v >> 8) & 0xff00) | ((v << 8) & 0xff0000) | (v << 24);
            for (k = 0; k < 8; k++)
                if (vals[k] != v)
                    add_fault(FK_WORD, i, vals[k]);
        }
    /* every single-bit flip of the first 16 payload words (where the dimension and count words of every format live) */
    if (!IS_FEATPARAMS && strcmp(TARGET, "noisedict.txt") != 0)
        for (i = he; i + 4 <= ORIGLEN && i < he + (strcmp(TARGET, "mdef") == 0 ? 40 : 64); i += 4) {
            uint32_t v;
            int b;
            memcpy(&v, ORIG + i, 4);
            for (b = 0; b < 32; b++)
                add_fault(FK_WORD, i, v ^ (1u << b));
        }
    /* single-bit flips: in the header text, the byte-order magic, the payload start and the trailing checksum */
    for (i = 0; i < ORIGLEN && i < he + 8; i++)
        add_fault(FK_FLIP, i, 0x01);
    for (i = 1; i <= 8 && i <= ORIGLEN; i++)
        add_fault(FK_FLIP, ORIGLEN - i, 0x80);
    if (IS_FEATPARAMS || strcmp(TARGET, "noisedict.txt") == 0)
        for (i = 0; i < ORIGLEN; i++) {
            add_fault(FK_FLIP, i, 0x20);
            add_fault(FK_FLIP, i, 0x80);
        }
    mc_sample("model %s file %s (%zu bytes, header ends at %zu), mmap=%d: %ld faults; intact probe: %s", model, TARGET, ORIGLEN, he, USE_MMAP, NFAULTS, INTACT);
    {
        char d1[700];
        fault_desc(&FAULTS[NFAULTS / 2], d1, sizeof d1);
        mc_sample("%s", d1);
        fault_desc(&FAULTS[NFAULTS - 1], d1, sizeof d1);
        mc_sample("%s", d1);
    }
    complete = mc_fork_loop(shard, NFAULTS, nshard, 50, 120, run_index, NULL);
    unlink(DICT_PATH);
    if (IS_FEATPARAMS)
        unlink(FEATPARAMS_PATH);
    mc_stat("evaluations", mc_sh ? mc_sh->evals : 0);
    mc_stat("nontrivial", mc_sh ? mc_sh->nontriv : 0);
    mc_flag("exhaustive", complete);
    mc_finish();
    return 0;
}
