/* H2 mc_logmath -- C19: log-domain addition is accurate, commutative and monotone;
 * probability <-> log conversion never increases the probability and loses at most one unit.
 * E-ENUM, complete per (base, shift): every difference d over the whole add table and 512
 * entries beyond it, several anchors r, both argument orders; every integer log value in
 * [-2*table_size, +1000] at five fractional offsets for the conversions (DESIGN.md H2).
 *
 * usage: mc_logmath --base B --shift S [--case "<descriptor>"]
 */
#include "../engine/mc.h"
#include <math.h>
#include <soundswallower/logmath.h>

static logmath_t *lm;
static double BASE;
static int SHIFT;
static long double LNB; /* ln(base) */
static uint32 TSIZE, TWIDTH;
static int ZERO;
static char pfx[64];

static long double
true_incr(long d)
{
    /* log_b(1 + b^(-d * 2^shift)) in shifted units */
    long double e = -(long double)d * (long double)(1 << SHIFT) * LNB;
    return log1pl(expl(e)) / LNB / (long double)(1 << SHIFT);
}

#define TOL 1e-4L

static int
check_add(long d, int r)
{
    char cd[160];
    int x = r, y = (int)(r - d), a, a2, maxincr;
    long double t;
    snprintf(cd, sizeof cd, "%s kind=add d=%ld r=%d", pfx, d, r);
    mc_set_current(cd);
    if (y <= ZERO || x <= ZERO)
        return 0; /* identity case, covered separately */
    a = logmath_add(lm, x, y);
    a2 = logmath_add(lm, y, x);
    if (a != a2) {
        mc_viol("C19/add-not-symmetric", cd, "add(%d,%d)=%d but add(%d,%d)=%d", x, y, a, y, x, a2);
        return -1;
    }
    t = true_incr(d);
    if (fabsl((long double)(a - r) - t) > 0.5L + TOL) {
        mc_viol("C19/add-inaccurate", cd, "add(%d,%d)-max=%d, true log-sum increment %.6Lf (error %.6Lf > 0.5)", x, y,
                a - r, t, fabsl((long double)(a - r) - t));
        return -1;
    }
    if (a < r) {
        mc_viol("C19/add-below-max", cd, "add(%d,%d)=%d < larger argument", x, y, a);
        return -1;
    }
    maxincr = (int)ceill(logl(2.0L) / LNB / (long double)(1 << SHIFT));
    if (a - r > maxincr) {
        mc_viol("C19/add-above-log2", cd, "add(%d,%d)-max=%d > ceil(log_b 2)=%d", x, y, a - r, maxincr);
        return -1;
    }
    if (d > 0 && y - 1 > ZERO + 1) {
        int prev = logmath_add(lm, x, y + 1); /* smaller difference: must not be smaller */
        if (prev < a) {
            mc_viol("C19/add-not-monotone", cd, "add(%d,%d)=%d < add(%d,%d)=%d", x, y + 1, prev, x, y, a);
            return -1;
        }
    }
    return a != r; /* non-trivial: the table contributed */
}

/* the exact addition (logmath_add_exact; it is what logmath_add does on an object without a table): symmetric, within one unit below and
 * the rounding tolerance above the true sum (it converts with logmath_log, which rounds down), never below the larger argument by more
 * than that unit, never above it by more than log 2 */
static int
check_exact(long d, int r, int through_add)
{
    char cd[160];
    int x = r, y = (int)(r - d), a, a2, maxincr;
    long double t;
    snprintf(cd, sizeof cd, "%s kind=%s d=%ld r=%d", pfx, through_add ? "addnt" : "exact", d, r);
    mc_set_current(cd);
    if (y <= ZERO || x <= ZERO)
        return 0;
    if (logmath_exp(lm, x) < 1e-290)
        return 0; /* the larger probability is not representable as a double: outside what an addition through doubles can promise */
    a = through_add ? logmath_add(lm, x, y) : logmath_add_exact(lm, x, y);
    a2 = through_add ? logmath_add(lm, y, x) : logmath_add_exact(lm, y, x);
    if (a != a2) {
        mc_viol("C19/exact-add-not-symmetric", cd, "exact add(%d,%d)=%d but (%d,%d)=%d", x, y, a, y, x, a2);
        return -1;
    }
    t = (long double)r + true_incr(d);
    if ((long double)a > t + 1e-3L || (long double)a < t - 1.0L - 1e-3L) {
        mc_viol("C19/exact-add-inaccurate", cd, "exact add(%d,%d)=%d, true log-sum %.6Lf", x, y, a, t);
        return -1;
    }
    maxincr = (int)ceill(logl(2.0L) / LNB / (long double)(1 << SHIFT));
    if (a - r > maxincr) {
        mc_viol("C19/exact-add-above-log2", cd, "exact add(%d,%d)-max=%d > %d", x, y, a - r, maxincr);
        return -1;
    }
    return 1;
}

static int
check_conv(long v, int f)
{
    static const long double fr[5] = { 0.0L, 0.25L, 0.5L, 0.75L, 0.999L };
    char cd[160];
    long double lt = ((long double)v + fr[f]); /* true log in shifted units */
    double p = (double)expl(lt * (long double)(1 << SHIFT) * LNB), back;
    long double tl; /* the exact shifted log of the double p actually passed */
    int L;
    snprintf(cd, sizeof cd, "%s kind=conv v=%ld f=%d", pfx, v, f);
    mc_set_current(cd);
    if (!(p > 0) || !isfinite(p))
        return 0;
    tl = logl((long double)p) / LNB / (long double)(1 << SHIFT);
    L = logmath_log(lm, p);
    if ((long double)L > tl + 1e-6L) {
        mc_viol("C19/log-increases-probability", cd, "logmath_log(%.17g)=%d but true log is %.6Lf: log value rounded up",
                p, L, tl);
        return -1;
    }
    if (tl - (long double)L > 1.0L + 1e-6L) {
        mc_viol("C19/log-loses-more-than-one-unit", cd, "logmath_log(%.17g)=%d, true log %.6Lf", p, L, tl);
        return -1;
    }
    back = logmath_exp(lm, L);
    if (back > p * (1.0 + 1e-9)) {
        mc_viol("C19/roundtrip-increases-probability", cd, "exp(log(%.17g)) = %.17g > p", p, back);
        return -1;
    }
    {
        /* back must not be smaller than one unit below p */
        double floorp = (double)expl((tl - 1.0L - 1e-6L) * (long double)(1 << SHIFT) * LNB);
        if (back < floorp * (1.0 - 1e-9)) {
            mc_viol("C19/roundtrip-loses-more-than-one-unit", cd, "exp(log(%.17g)) = %.17g < %.17g", p, back, floorp);
            return -1;
        }
    }
    return fr[f] != 0.0L;
}

static int
check_identity(int x)
{
    char cd[160];
    snprintf(cd, sizeof cd, "%s kind=zero x=%d", pfx, x);
    mc_set_current(cd);
    if (logmath_add(lm, ZERO, x) != x || logmath_add(lm, x, ZERO) != x) {
        mc_viol("C19/zero-not-identity", cd, "add(zero,%d)=%d add(%d,zero)=%d", x, logmath_add(lm, ZERO, x), x,
                logmath_add(lm, x, ZERO));
        return -1;
    }
    if (logmath_add(lm, ZERO - 1, x) != x || logmath_add(lm, x, ZERO - 1) != x) {
        mc_viol("C19/zero-not-identity", cd, "values below log-zero must also act as zero");
        return -1;
    }
    return 1;
}

static int USE_TABLE = 1;
int
main(int argc, char **argv)
{
    const char *cas = mc_arg(argc, argv, "--case", NULL);
    long d, v, evals = 0, nontriv = 0, viol = 0;
    int rc, f, i;
    mc_init();
    mc_install_crash_hooks();
    {
        /* --base 1.0001, or pow2:K for the base 2^(1/K): its largest table entry is round(K) >> shift, which puts the
         * table exactly on, below or above a change of the entry width (256, 65536) */
        const char *bs = mc_arg(argc, argv, "--base", "1.0001");
        BASE = strncmp(bs, "pow2:", 5) == 0 ? pow(2.0, 1.0 / atof(bs + 5)) : atof(bs);
    }
    SHIFT = atoi(mc_arg(argc, argv, "--shift", "0"));
    LNB = logl((long double)BASE);
    USE_TABLE = atoi(mc_arg(argc, argv, "--table", "1"));
    lm = logmath_init(BASE, SHIFT, USE_TABLE);
    if (!lm)
        return 2;
    if (logmath_get_shift(lm) != SHIFT || fabs(logmath_get_base(lm) - BASE) > 0) {
        mc_viol("C19/object-reports-other-parameters", "parameters", "created with base %.17g shift %d, reports base %.17g shift %d", BASE, SHIFT,
                logmath_get_base(lm), logmath_get_shift(lm));
        mc_finish();
        return 0;
    }
    logmath_get_table_shape(lm, &TSIZE, &TWIDTH, NULL);
    ZERO = logmath_get_zero(lm);
    snprintf(pfx, sizeof pfx, "base=%s shift=%d%s", mc_arg(argc, argv, "--base", "1.0001"), SHIFT, USE_TABLE ? "" : " no-table");
    if (!USE_TABLE)
        TSIZE = 2048; /* no table: only the conversions are judged (the property speaks of the table-driven addition) */
    if (cas) {
        char kind[16] = "";
        const char *k = strstr(cas, "kind=");
        long a = 0, b = 0;
        if (!k)
            return 2;
        sscanf(k, "kind=%15s", kind);
        if (!strcmp(kind, "add") && sscanf(k, "kind=add d=%ld r=%ld", &a, &b) == 2)
            check_add(a, (int)b);
        else if (!strcmp(kind, "exact") && sscanf(k, "kind=exact d=%ld r=%ld", &a, &b) == 2)
            check_exact(a, (int)b, 0);
        else if (!strcmp(kind, "addnt") && sscanf(k, "kind=addnt d=%ld r=%ld", &a, &b) == 2)
            check_exact(a, (int)b, 1);
        else if (!strcmp(kind, "conv") && sscanf(k, "kind=conv v=%ld f=%ld", &a, &b) == 2)
            check_conv(a, (int)b);
        else if (!strcmp(kind, "zero") && sscanf(k, "kind=zero x=%ld", &a) == 1)
            check_identity((int)a);
        else
            return 2;
        mc_finish();
        return 0;
    }
    mc_sample("%s table_size=%u width=%u zero=%d: add d in [0,%u] x r in {0,-1,-12345,zero+d+1} both orders; "
              "conversions v in [%ld,1000] x 5 fractions",
              pfx, TSIZE, TWIDTH, ZERO, TSIZE + 512, -2L * (long)TSIZE);
    for (d = 0; USE_TABLE && d <= (long)TSIZE + 512; d++) {
        int rs[4] = { 0, -1, -12345, 0 };
        rs[3] = (int)(ZERO + d + 1);
        for (i = 0; i < 4; i++) {
            rc = check_add(d, rs[i]);
            evals++;
            if (rc > 0)
                nontriv++;
            if (rc < 0)
                viol++;
        }
    }
    {
        /* exact addition: every difference up to the table size and beyond, and far-apart operands (up to the point where the smaller
         * one underflows), both orders; on an object without a table also through logmath_add, with log-zero on either side */
        static const long far[] = { 100000, 300000, 800000, 1500000, 3000000, 7200000 };
        int rs[3] = { 0, -1, -12345 }, k;
        for (d = 0; d <= (long)TSIZE + 512; d++)
            for (i = 0; i < 3; i++)
                for (k = 0; k <= !USE_TABLE; k++) {
                    rc = check_exact(d, rs[i], k);
                    evals++;
                    nontriv += rc > 0;
                    viol += rc < 0;
                }
        for (f = 0; f < 6; f++)
            for (i = 0; i < 3; i++)
                for (k = 0; k <= !USE_TABLE; k++)
                    if (rs[i] - far[f] / (1 << SHIFT) > ZERO + 1) {
                        rc = check_exact(far[f] / (1 << SHIFT), rs[i], k);
                        evals++;
                        nontriv += rc > 0;
                        viol += rc < 0;
                    }
        if (!USE_TABLE) {
            char cd[160];
            static const int xs[] = { 0, -1, 5, -12345, -100000 };
            for (i = 0; i < 5; i++) {
                snprintf(cd, sizeof cd, "%s kind=zero x=%d", pfx, xs[i]);
                mc_set_current(cd);
                if (logmath_add(lm, ZERO, xs[i]) != xs[i] || logmath_add(lm, xs[i], ZERO) != xs[i]) {
                    mc_viol("C19/zero-not-identity", cd, "object without a table: add(zero,%d)=%d add(%d,zero)=%d", xs[i], logmath_add(lm, ZERO, xs[i]), xs[i],
                            logmath_add(lm, xs[i], ZERO));
                    viol++;
                }
                evals++;
            }
        }
    }
    for (i = -3; USE_TABLE && i <= 3; i++) {
        static const int xs[] = { 0, -1, 5, -12345, -100000 };
        int j;
        for (j = 0; j < 5; j++) {
            rc = check_identity(xs[j]);
            evals++;
            if (rc < 0)
                viol++;
        }
    }
    {
        char cd[160];
        snprintf(cd, sizeof cd, "%s kind=zero x=%d", pfx, ZERO);
        if (USE_TABLE && logmath_add(lm, ZERO, ZERO) > ZERO)
            mc_viol("C19/zero-not-identity", cd, "zero+zero=%d > zero", logmath_add(lm, ZERO, ZERO));
    }
    for (v = -2L * (long)TSIZE; v <= 1000; v++)
        for (f = 0; f < 5; f++) {
            rc = check_conv(v, f);
            evals++;
            if (rc > 0)
                nontriv++;
            if (rc < 0)
                viol++;
        }
    if (USE_TABLE)
        mc_sample("%s kind=add d=%u r=-12345 -> +%d", pfx, TSIZE / 3, logmath_add(lm, -12345, -12345 - (int)(TSIZE / 3)) + 12345);
    mc_sample("%s kind=conv v=-%u f=2 -> %d", pfx, TSIZE / 2,
              logmath_log(lm, (double)expl(((long double)(-(long)(TSIZE / 2)) + 0.5L) * (1 << SHIFT) * LNB)));
    logmath_free(lm);
    mc_stat("evaluations", evals);
    mc_stat("nontrivial", nontriv);
    mc_stat("table_entries", TSIZE);
    mc_flag("exhaustive", 1);
    mc_finish();
    return 0;
}
