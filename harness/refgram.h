/* refgram.h -- reference semantics for finite-state grammars (tropical semiring), shared by
 * mc_fsg (C13), mc_jsgf (C05) and the decoder harnesses.  A grammar is an arc list; labels are
 * small integers, RG_EPS for a null arc.  Scores are integer log-probabilities (<= 0). */
#ifndef REFGRAM_H
#define REFGRAM_H
#include <limits.h>
#include <string.h>

#define RG_EPS (-1)
#define RG_MAXA 512
#define RG_MAXS 64
#define RG_NEG (INT_MIN / 4)

typedef struct {
    int from, to, label, logp;
} rg_arc;
typedef struct {
    int n, start, final, narcs;
    rg_arc arcs[RG_MAXA];
} rg_gram;

/* label projection: proj[label] = symbol index (>= 0), RG_EPS (silent: consumes nothing), or -2 (drop the arc) */
static void
rg_closure(const rg_gram *g, const int *proj, int *best)
{
    int it, i, changed = 1;
    for (it = 0; it <= g->n && changed; it++) {
        changed = 0;
        for (i = 0; i < g->narcs; i++) {
            const rg_arc *a = &g->arcs[i];
            int sym = a->label == RG_EPS ? RG_EPS : proj ? proj[a->label] : a->label;
            if (sym != RG_EPS || best[a->from] == RG_NEG)
                continue;
            if (a->logp > 0)
                continue; /* a positive silent cycle has no optimum; callers never build one */
            if (best[a->from] + a->logp > best[a->to]) {
                best[a->to] = best[a->from] + a->logp;
                changed = 1;
            }
        }
    }
}

/* best start->final log-probability of the symbol string w[0..len), RG_NEG if not accepted */
static int
rg_score(const rg_gram *g, const int *proj, const int *w, int len)
{
    int best[RG_MAXS], nxt[RG_MAXS], i, t;
    for (i = 0; i < g->n; i++)
        best[i] = RG_NEG;
    best[g->start] = 0;
    rg_closure(g, proj, best);
    for (t = 0; t < len; t++) {
        for (i = 0; i < g->n; i++)
            nxt[i] = RG_NEG;
        for (i = 0; i < g->narcs; i++) {
            const rg_arc *a = &g->arcs[i];
            int sym = a->label == RG_EPS ? RG_EPS : proj ? proj[a->label] : a->label;
            if (sym != w[t] || best[a->from] == RG_NEG)
                continue;
            if (best[a->from] + a->logp > nxt[a->to])
                nxt[a->to] = best[a->from] + a->logp;
        }
        memcpy(best, nxt, sizeof(int) * g->n);
        rg_closure(g, proj, best);
    }
    return best[g->final];
}

/* is the symbol string the label sequence of some path leaving the start state (any end state)? */
static int
rg_is_prefix(const rg_gram *g, const int *proj, const int *w, int len)
{
    int best[RG_MAXS], nxt[RG_MAXS], i, t;
    for (i = 0; i < g->n; i++)
        best[i] = RG_NEG;
    best[g->start] = 0;
    rg_closure(g, proj, best);
    for (t = 0; t < len; t++) {
        int any = 0;
        for (i = 0; i < g->n; i++)
            nxt[i] = RG_NEG;
        for (i = 0; i < g->narcs; i++) {
            const rg_arc *a = &g->arcs[i];
            int sym = a->label == RG_EPS ? RG_EPS : proj ? proj[a->label] : a->label;
            if (sym != w[t] || best[a->from] == RG_NEG)
                continue;
            if (best[a->from] + a->logp > nxt[a->to])
                nxt[a->to] = best[a->from] + a->logp;
            any = 1;
        }
        if (!any)
            return 0;
        memcpy(best, nxt, sizeof(int) * g->n);
        rg_closure(g, proj, best);
    }
    return 1;
}

/* all strings over nsym symbols up to length L, in length-lexicographic order; out[k] = score.
 * returns the number of strings ( (nsym^(L+1)-1)/(nsym-1) ) */
static int
rg_language(const rg_gram *g, const int *proj, int nsym, int L, int *out)
{
    int w[16], len, k = 0, i;
    for (len = 0; len <= L; len++) {
        for (i = 0; i < len; i++)
            w[i] = 0;
        for (;;) {
            out[k++] = rg_score(g, proj, w, len);
            for (i = len - 1; i >= 0; i--) {
                if (++w[i] < nsym)
                    break;
                w[i] = 0;
            }
            if (i < 0)
                break;
        }
    }
    return k;
}

static void
rg_string_of(int k, int nsym, int L, char *buf, const char *const *names)
{
    /* inverse of the enumeration order above, for messages */
    int len, count = 1, i, w[16];
    buf[0] = 0;
    for (len = 0; len <= L; len++) {
        if (k < count)
            break;
        k -= count;
        count *= nsym;
    }
    for (i = len - 1; i >= 0; i--) {
        w[i] = k % nsym;
        k /= nsym;
    }
    if (len == 0)
        strcpy(buf, "<empty>");
    for (i = 0; i < len; i++) {
        strcat(buf, names[w[i]]);
        if (i + 1 < len)
            strcat(buf, " ");
    }
}
#endif
