/* strict_json.h -- a strict RFC 8259 parser into a small DOM (static pool).  Rejects raw control
 * characters in strings, invalid escapes, invalid UTF-8 is NOT checked (RFC 8259 leaves bytes >= 0x80 to the
 * encoding), trailing commas, leading zeros, anything after the value except the caller-checked tail. */
#ifndef STRICT_JSON_H
#define STRICT_JSON_H
#include <stdlib.h>
#include <string.h>

enum { SJ_OBJ, SJ_ARR, SJ_STR, SJ_NUM, SJ_LIT };
typedef struct sj_node {
    int type;
    const char *key; /* decoded key if member of an object */
    char *str; /* decoded string value / literal text / number text */
    double num;
    struct sj_node *child, *next;
} sj_node;

#define SJ_POOL 8192
#define SJ_TEXT (1 << 18)
static sj_node sj_pool[SJ_POOL];
static int sj_npool;
static char sj_text[SJ_TEXT];
static size_t sj_ntext;
static const char *sj_err;
static const char *sj_errpos;

static sj_node *
sj_new(int type)
{
    sj_node *n;
    if (sj_npool == SJ_POOL) {
        sj_err = "too many nodes";
        return NULL;
    }
    n = &sj_pool[sj_npool++];
    memset(n, 0, sizeof *n);
    n->type = type;
    return n;
}

static void
sj_ws(const char **p)
{
    while (**p == ' ' || **p == '\t' || **p == '\n' || **p == '\r')
        ++*p;
}

static char *
sj_string(const char **p)
{
    const unsigned char *s = (const unsigned char *)*p;
    char *out = sj_text + sj_ntext;
    size_t o = 0;
    if (*s != '"') {
        sj_err = "expected string";
        sj_errpos = (const char *)s;
        return NULL;
    }
    s++;
    for (;;) {
        if (sj_ntext + o + 8 > SJ_TEXT) {
            sj_err = "text pool full";
            return NULL;
        }
        if (*s == 0) {
            sj_err = "unterminated string";
            sj_errpos = (const char *)s;
            return NULL;
        }
        if (*s == '"') {
            s++;
            break;
        }
        if (*s < 0x20) {
            sj_err = "raw control character in string";
            sj_errpos = (const char *)s;
            return NULL;
        }
        if (*s == '\\') {
            s++;
            switch (*s) {
            case '"': out[o++] = '"'; break;
            case '\\': out[o++] = '\\'; break;
            case '/': out[o++] = '/'; break;
            case 'b': out[o++] = '\b'; break;
            case 'f': out[o++] = '\f'; break;
            case 'n': out[o++] = '\n'; break;
            case 'r': out[o++] = '\r'; break;
            case 't': out[o++] = '\t'; break;
            case 'u': {
                unsigned v = 0;
                int i;
                for (i = 1; i <= 4; i++) {
                    unsigned c = s[i];
                    v <<= 4;
                    if (c >= '0' && c <= '9')
                        v |= c - '0';
                    else if (c >= 'a' && c <= 'f')
                        v |= c - 'a' + 10;
                    else if (c >= 'A' && c <= 'F')
                        v |= c - 'A' + 10;
                    else {
                        sj_err = "bad \\u escape";
                        sj_errpos = (const char *)s;
                        return NULL;
                    }
                }
                s += 4;
                /* encode as UTF-8 (surrogates kept as-is: good enough for comparison) */
                if (v < 0x80)
                    out[o++] = (char)v;
                else if (v < 0x800) {
                    out[o++] = (char)(0xc0 | (v >> 6));
                    out[o++] = (char)(0x80 | (v & 0x3f));
                } else {
                    out[o++] = (char)(0xe0 | (v >> 12));
                    out[o++] = (char)(0x80 | ((v >> 6) & 0x3f));
                    out[o++] = (char)(0x80 | (v & 0x3f));
                }
                break;
            }
            default:
                sj_err = "invalid escape sequence in string";
                sj_errpos = (const char *)s;
                return NULL;
            }
            s++;
        } else
            out[o++] = (char)*s++;
    }
    out[o++] = 0;
    sj_ntext += o;
    *p = (const char *)s;
    return out;
}

static sj_node *sj_value(const char **p, int depth);

static sj_node *
sj_value(const char **p, int depth)
{
    sj_node *n;
    if (depth > 64) {
        sj_err = "nesting too deep";
        return NULL;
    }
    sj_ws(p);
    if (**p == '{') {
        sj_node *last = NULL;
        n = sj_new(SJ_OBJ);
        if (!n)
            return NULL;
        ++*p;
        sj_ws(p);
        if (**p == '}') {
            ++*p;
            return n;
        }
        for (;;) {
            char *k;
            sj_node *v;
            sj_ws(p);
            k = sj_string(p);
            if (!k)
                return NULL;
            sj_ws(p);
            if (**p != ':') {
                sj_err = "expected ':'";
                sj_errpos = *p;
                return NULL;
            }
            ++*p;
            v = sj_value(p, depth + 1);
            if (!v)
                return NULL;
            v->key = k;
            if (last)
                last->next = v;
            else
                n->child = v;
            last = v;
            sj_ws(p);
            if (**p == ',') {
                ++*p;
                continue;
            }
            if (**p == '}') {
                ++*p;
                return n;
            }
            sj_err = "expected ',' or '}'";
            sj_errpos = *p;
            return NULL;
        }
    }
    if (**p == '[') {
        sj_node *last = NULL;
        n = sj_new(SJ_ARR);
        if (!n)
            return NULL;
        ++*p;
        sj_ws(p);
        if (**p == ']') {
            ++*p;
            return n;
        }
        for (;;) {
            sj_node *v = sj_value(p, depth + 1);
            if (!v)
                return NULL;
            if (last)
                last->next = v;
            else
                n->child = v;
            last = v;
            sj_ws(p);
            if (**p == ',') {
                ++*p;
                continue;
            }
            if (**p == ']') {
                ++*p;
                return n;
            }
            sj_err = "expected ',' or ']'";
            sj_errpos = *p;
            return NULL;
        }
    }
    if (**p == '"') {
        n = sj_new(SJ_STR);
        if (!n)
            return NULL;
        n->str = sj_string(p);
        return n->str ? n : NULL;
    }
    if (**p == '-' || (**p >= '0' && **p <= '9')) {
        const char *s = *p, *q = s;
        char *end;
        if (*q == '-')
            q++;
        if (*q == '0' && q[1] >= '0' && q[1] <= '9') {
            sj_err = "leading zero in number";
            sj_errpos = q;
            return NULL;
        }
        if (!(*q >= '0' && *q <= '9')) {
            sj_err = "bad number";
            sj_errpos = q;
            return NULL;
        }
        while (*q >= '0' && *q <= '9')
            q++;
        if (*q == '.') {
            q++;
            if (!(*q >= '0' && *q <= '9')) {
                sj_err = "bad fraction";
                sj_errpos = q;
                return NULL;
            }
            while (*q >= '0' && *q <= '9')
                q++;
        }
        if (*q == 'e' || *q == 'E') {
            q++;
            if (*q == '+' || *q == '-')
                q++;
            if (!(*q >= '0' && *q <= '9')) {
                sj_err = "bad exponent";
                sj_errpos = q;
                return NULL;
            }
            while (*q >= '0' && *q <= '9')
                q++;
        }
        n = sj_new(SJ_NUM);
        if (!n)
            return NULL;
        n->num = strtod(s, &end);
        if (sj_ntext + (size_t)(q - s) + 1 > SJ_TEXT) {
            sj_err = "text pool full";
            return NULL;
        }
        n->str = sj_text + sj_ntext;
        memcpy(n->str, s, (size_t)(q - s));
        n->str[q - s] = 0;
        sj_ntext += (size_t)(q - s) + 1;
        *p = q;
        return n;
    }
    if (strncmp(*p, "true", 4) == 0 || strncmp(*p, "null", 4) == 0) {
        n = sj_new(SJ_LIT);
        *p += 4;
        return n;
    }
    if (strncmp(*p, "false", 5) == 0) {
        n = sj_new(SJ_LIT);
        *p += 5;
        return n;
    }
    sj_err = "nan/inf or unexpected character where a value should be";
    sj_errpos = *p;
    return NULL;
}

/* parse one value; *tail is set to what follows it */
static sj_node *
sj_parse(const char *text, const char **tail)
{
    const char *p = text;
    sj_node *n;
    sj_npool = 0;
    sj_ntext = 0;
    sj_err = NULL;
    sj_errpos = NULL;
    n = sj_value(&p, 0);
    if (tail)
        *tail = p;
    return n;
}

static sj_node *
sj_get(sj_node *obj, const char *key)
{
    sj_node *c;
    if (!obj || obj->type != SJ_OBJ)
        return NULL;
    for (c = obj->child; c; c = c->next)
        if (strcmp(c->key, key) == 0)
            return c;
    return NULL;
}
#endif
