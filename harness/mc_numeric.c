/* H12 mc_numeric -- C18: features and scores stay finite and within range for any audio.
 * E-ENUM over frame-type sequences: a frame (160 samples) is one of 8 types (zeros, +32767, -32768, full-scale
 * Nyquist square, single impulse, DC +1, fixed white noise, a speech frame; float input adds +-1e30 and a
 * subnormal); ALL sequences up to a length bound, each extended periodically to 60 frames so that noise tracker
 * and live normalisation leave their transients; streaming int16, batch int16, streaming float32; plus long
 * chains (each type alone and alternating pairs) of 18000 frames.  Real front end, real scorer with all senones
 * computed; library built with signed-overflow and float-cast-overflow checks in addition to ASan.
 * Oracle at the acmod_score seam (every frame the search scores): every feature value finite, every senone
 * score in [0, 32767] with minimum 0; after the utterance: path score and segment scores in (WORST_SCORE, 0],
 * channel-normalisation state finite, export -> import restores the same float values and is a fixed point.
 *
 * usage: mc_numeric --mode stream|batch|float|long [--len L] [--shard i/n] [--case "<types>"]
 */
#include "../engine/mc.h"
#include "synth_model.h"
#include <math.h>
#include <sys/stat.h>
#include <soundswallower/acmod.h>
#include <soundswallower/bitvec.h>
#include <soundswallower/cmn.h>
#include <soundswallower/decoder.h>
#include <soundswallower/err.h>
#include <soundswallower/feat.h>
#include <soundswallower/hmm.h>
#include <soundswallower/s2_semi_mgau.h>
/* private to s2_semi_mgau.c; layout asserted by the harness through the codeword range check below */
struct vqFeature_s {
    int32 score;
    int32 codeword;
};

#ifndef MODELDIR
#define MODELDIR "/repo/model/en-us"
#endif
#ifndef DATADIR
#define DATADIR "/repo/tests/data"
#endif

static decoder_t *D;
static const char *VIOL_SIG;
static char VIOL_MSG[400];
static int NTYPES = 8, MODE; /* 0 stream, 1 batch, 2 float, 3 long */
static const char *const TNAME[11] = { "zero", "max", "min", "square", "impulse", "dc1", "noise", "speech", "f+1e30", "f-1e30", "fsubnormal" };
static int16 SPEECH[160], NOISE[160];
static long FRAMES_SCORED;
static int INJECT_WORST;

static void
flag(const char *sig, const char *fmt, ...)
{
    va_list ap;
    if (VIOL_SIG)
        return;
    VIOL_SIG = sig;
    va_start(ap, fmt);
    vsnprintf(VIOL_MSG, sizeof VIOL_MSG, fmt, ap);
    va_end(ap);
}

int16 const *__real_acmod_score(acmod_t *acmod, int *inout_frame_idx);
int16 const *
__wrap_acmod_score(acmod_t *acmod, int *inout_frame_idx)
{
    int16 const *scr;
    int fr = inout_frame_idx ? *inout_frame_idx : -1, tmp = fr, i, s, nsen = bin_mdef_n_sen(acmod->mdef), minv = 32767, bad = 0;
    mfcc_t **fv = acmod_get_frame(acmod, inout_frame_idx ? &tmp : NULL);
    FRAMES_SCORED++;
    mc_count(0, 1);
    if (fv) {
        int ns = feat_dimension1(acmod->fcb);
        for (s = 0; s < ns; s++) {
            int dim = (int)feat_dimension2(acmod->fcb, s);
            for (i = 0; i < dim; i++)
                if (!isfinite((double)fv[s][i])) {
                    flag("C18/feature-value-not-finite", "frame %d: dynamic-feature stream %d component %d is %g", fr, s, i, (double)fv[s][i]);
                    bad = 1;
                    break;
                }
        }
    }
    if (bad) {
        /* do not feed NaN to the scorer (its float->int casts would only end the process with a less specific
         * message): the violation is recorded, the search gets neutral scores */
        static int16 zeros[65536];
        return zeros;
    }
    if (INJECT_WORST) {
        /* --inject worst: the search is driven with the worst scores a scorer can deliver (32767 for every senone), to
         * see the path scores reach their floor and stay there */
        static int16 worst[65536];
        if (worst[0] == 0)
            for (i = 0; i < 65536; i++)
                worst[i] = 32767;
        (void)__real_acmod_score(acmod, inout_frame_idx);
        return worst;
    }
    scr = __real_acmod_score(acmod, inout_frame_idx);
    if (scr && !acmod->compallsen) {
        /* only the senones on the scorer's active list are scored (the search's set, plus senones that bridge gaps of
         * more than 255 in the delta coding): those are in range and the best of them scores 0 */
        int nact = 0, sen = 0;
        for (i = 0; i < acmod->n_senone_active; i++) {
            sen += acmod->senone_active[i];
            if (sen >= nsen)
                break;
            nact++;
            if (scr[sen] < 0) {
                flag("C18/senone-score-out-of-range", "frame %d: active senone %d has score %d", fr, sen, scr[sen]);
                break;
            }
            if (scr[sen] < minv)
                minv = scr[sen];
        }
        mc_count(1, nact);
        if (nact > 0 && minv != 0 && strcmp(acmod->mgau->vt->name, "s2_semi") != 0)
            flag("C18/best-senone-score-not-normalised-to-zero", "frame %d: the best of the %d active senones scores %d", fr, nact, minv);
    }
    if (scr && acmod->compallsen) {
        for (i = 0; i < nsen; i++) {
            if (scr[i] < 0) {
                flag("C18/senone-score-out-of-range", "frame %d: senone %d has score %d", fr, i, scr[i]);
                break;
            }
            if (scr[i] < minv)
                minv = scr[i];
        }
        mc_count(1, nsen);
        if (strcmp(acmod->mgau->vt->name, "s2_semi") == 0) {
            /* the semi-continuous module normalises at the codebook: the best density of every stream scores 0
             * (mgau_norm); senone scores are sums of three bounded terms and are not shifted again */
            s2_semi_mgau_t *sm = (s2_semi_mgau_t *)acmod->mgau;
            for (s = 0; s < sm->g->n_feat; s++)
                if (sm->f[s][0].codeword < 0 || sm->f[s][0].codeword >= sm->g->n_density)
                    flag("harness/density-record-layout", "frame %d stream %d: codeword %d", fr, s, sm->f[s][0].codeword);
                else if (sm->f[s][0].score != 0)
                    flag("C18/best-density-score-not-normalised-to-zero", "frame %d stream %d: best density scores %d", fr, s, sm->f[s][0].score);
        } else if (minv != 0)
            flag("C18/best-senone-score-not-normalised-to-zero", "frame %d: best senone score is %d", fr, minv);
    }
    return scr;
}

static void
fill_frame_i16(int type, int16 *out, long frameno)
{
    int i;
    switch (type) {
    case 0: memset(out, 0, 320); break;
    case 1: for (i = 0; i < 160; i++) out[i] = 32767; break;
    case 2: for (i = 0; i < 160; i++) out[i] = -32768; break;
    case 3: for (i = 0; i < 160; i++) out[i] = (i & 1) ? -32768 : 32767; break;
    case 4: memset(out, 0, 320); out[(frameno * 7) % 160] = 32767; break;
    case 5: for (i = 0; i < 160; i++) out[i] = 1; break;
    case 6: memcpy(out, NOISE, 320); break;
    default: memcpy(out, SPEECH, 320); break;
    }
}

static void
fill_frame_f32(int type, float32 *out, long frameno)
{
    int i;
    if (type < 8) {
        int16 tmp[160];
        fill_frame_i16(type, tmp, frameno);
        for (i = 0; i < 160; i++)
            out[i] = tmp[i] / 32768.0f;
    } else
        for (i = 0; i < 160; i++)
            out[i] = type == 8 ? 1e30f : type == 9 ? -1e30f : 1e-40f;
}

#define NF 60
static int16 BUF16[NF * 160 + 512];
static float32 BUF32[NF * 160 + 512];

static void
check_after(const char *cd)
{
    int32 sc = 0;
    const char *h = decoder_hyp(D, &sc);
    seg_iter_t *it;
    cmn_t *cmn = D->acmod->fcb->cmn_struct;
    (void)h;
    (void)cd;
    if (sc > 0 || sc <= WORST_SCORE)
        flag("C18/path-score-out-of-range", "path score %d", sc);
    for (it = decoder_seg_iter(D); it; it = seg_iter_next(it)) {
        int32 a, l;
        seg_iter_prob(it, &a, &l);
        if (a > 0 || a <= WORST_SCORE || l > 0)
            flag("C18/segment-score-out-of-range", "segment %s has acoustic score %d, grammar score %d", seg_iter_word(it), a, l);
    }
    if (cmn) {
        int i;
        float before[64], after[64];
        const char *rep;
        char copy[1024], *rep2;
        rep = decoder_get_cmn(D, 1);
        for (i = 0; i < cmn->veclen && i < 64; i++) {
            before[i] = (float)cmn->cmn_mean[i];
            if (!isfinite((double)cmn->cmn_mean[i]) || !isfinite((double)cmn->sum[i]))
                flag("C18/channel-normalisation-state-not-finite", "after the utterance mean[%d]=%g sum[%d]=%g", i, (double)cmn->cmn_mean[i], i, (double)cmn->sum[i]);
        }
        if (rep && !VIOL_SIG) {
            snprintf(copy, sizeof copy, "%s", rep);
            if (decoder_set_cmn(D, copy) < 0)
                flag("C18/exported-normalisation-state-not-importable", "decoder_set_cmn refuses \"%s\"", copy);
            for (i = 0; i < cmn->veclen && i < 64; i++)
                after[i] = (float)cmn->cmn_mean[i];
            for (i = 0; i < cmn->veclen && i < 64 && !VIOL_SIG; i++)
                if (memcmp(&before[i], &after[i], sizeof(float)) != 0)
                    flag("C18/normalisation-export-import-changes-values", "component %d: %.9g exported as text \"%s\" comes back as %.9g", i, (double)before[i], copy,
                         (double)after[i]);
            mc_count(2, 1);
            rep2 = (char *)decoder_get_cmn(D, 0);
            if (rep2 && strcmp(rep2, copy) != 0)
                flag("C18/normalisation-export-not-a-fixed-point", "\"%s\" re-exported as \"%s\"", copy, rep2);
        }
    }
}

static int
run_types(const int *types, int n, const char *cd)
{
    int f, rc;
    VIOL_SIG = NULL;
    if (decoder_start_utt(D) < 0)
        return -1;
    if (MODE == 2) {
        for (f = 0; f < NF; f++)
            fill_frame_f32(types[f % n], BUF32 + f * 160, f);
        rc = decoder_process_float32(D, BUF32, NF * 160, 0, 0);
    } else {
        for (f = 0; f < NF; f++)
            fill_frame_i16(types[f % n], BUF16 + f * 160, f);
        rc = decoder_process_int16(D, BUF16, NF * 160, 0, MODE == 1);
    }
    if (rc < 0)
        flag("C18/processing-failed", "processing call returned %d", rc);
    decoder_end_utt(D);
    check_after(cd);
    if (VIOL_SIG) {
        mc_viol(VIOL_SIG, cd, "%s", VIOL_MSG);
        return -1;
    }
    return 1;
}

static int MAXLEN = 3;
static long long
count_upto(int len)
{
    long long c = 0, k = 1;
    int i;
    for (i = 1; i <= len; i++) {
        k *= NTYPES;
        c += k;
    }
    return c;
}

static void
seq_at(long long idx, int *types, int *n)
{
    long long k = 1;
    int len, i;
    for (len = 1;; len++) {
        k *= NTYPES;
        if (idx < k)
            break;
        idx -= k;
    }
    *n = len;
    for (i = len - 1; i >= 0; i--) {
        types[i] = (int)(idx % NTYPES);
        idx /= NTYPES;
    }
}

/* long chains, most extreme first (quick runs a prefix) */
static const int CHAIN[16][2] = { { 0, 0 }, { 3, 3 }, { 0, 1 }, { 1, 1 }, { 2, 2 }, { 7, 7 }, { 6, 6 }, { 4, 4 }, { 5, 5 }, { 0, 3 }, { 7, 0 }, { 1, 2 }, { 6, 0 }, { 3, 7 }, { 5, 0 }, { 4, 6 } };
static int NCHAINS = 16;
static long NLONG = 18000;
/* front-end configurations: the model's feat_params.json with overrides (key, JSON value) */
static const char *const BASE[][2] = { { "lowerf", "130" }, { "upperf", "3700" }, { "nfilt", "20" }, { "transform", "\"dct\"" }, { "lifter", "22" },
    { "feat", "\"1s_c_d_dd\"" }, { "svspec", "\"0-12/13-25/26-38\"" }, { "cmn", "\"current\"" }, { "varnorm", "false" }, { "remove_noise", "true" }, { NULL, NULL } };
static const char *const CFGS[][11] = {
    { NULL },
    { "remove_noise", "false", NULL },
    { "varnorm", "true", NULL },
    { "remove_dc", "true", "dither", "true", "seed", "1", NULL },
    { "cmn", "\"none\"", NULL },
    { "transform", "\"legacy\"", "lifter", "0", NULL },
    { "transform", "\"htk\"", "doublebw", "true", "unit_area", "false", "round_filters", "false", NULL },
    { "ds", "2", "topn", "2", "alpha", "0", NULL },
    { "warp_type", "\"inverse_linear\"", "warp_params", "\"1.3\"", "remove_noise", "false", NULL },
    { "warp_type", "\"piecewise_linear\"", "warp_params", "\"0.8,3000\"", "nfft", "1024", NULL },
    { "varnorm", "true", "remove_noise", "false", "cmn", "\"batch\"", NULL },
    { "lowerf", "0", "upperf", "8000", "nfilt", "40", "remove_noise", "false", NULL },
};
#define NCFG ((int)(sizeof CFGS / sizeof CFGS[0]))
static const char *const MODENAME[4] = { "stream", "batch", "float", "long" };
static int
run_index(long long idx, void *arg)
{
    int types[16], n, i;
    char cd[256];
    size_t o;
    (void)arg;
    if (MODE == 3) {
        /* long chains: 0..NT-1 single types, then alternating pairs (i, i+1) */
        long f, nfr = NLONG;
        int a = CHAIN[idx][0], b = CHAIN[idx][1], rc = 0;
        snprintf(cd, sizeof cd, "mode=long types=%s/%s frames=%ld", TNAME[a], TNAME[b], nfr);
        mc_case_begin(idx, cd);
        VIOL_SIG = NULL;
        if (decoder_start_utt(D) < 0)
            return -1;
        for (f = 0; f < nfr && rc >= 0; f += 50) {
            int k;
            for (k = 0; k < 50; k++)
                fill_frame_i16(((f + k) / 25) & 1 ? b : a, BUF16 + k * 160, f + k);
            rc = decoder_process_int16(D, BUF16, 50 * 160, 0, 0);
            if ((f % 3000) == 0) {
                int32 sc;
                (void)decoder_hyp(D, &sc);
                if (sc > 0 || sc <= WORST_SCORE)
                    flag("C18/path-score-out-of-range", "partial path score %d after %ld frames", sc, f);
            }
        }
        decoder_end_utt(D);
        check_after(cd);
        if (VIOL_SIG) {
            mc_viol(VIOL_SIG, cd, "%s", VIOL_MSG);
            return -1;
        }
        return 1;
    }
    seq_at(idx, types, &n);
    o = snprintf(cd, sizeof cd, "mode=%s types=", MODENAME[MODE]);
    for (i = 0; i < n; i++)
        o += snprintf(cd + o, sizeof cd - o, "%s%s", i ? "," : "", TNAME[types[i]]);
    mc_case_begin(idx, cd);
    return run_types(types, n, cd);
}

int
main(int argc, char **argv)
{
    const char *cas = mc_arg(argc, argv, "--case", NULL), *mode = mc_arg(argc, argv, "--mode", "stream");
    int shard = 0, nshard = 1, complete, i;
    config_t *cfg;
    FILE *fp;
    char dp[512], mdir[512] = "";
    const char *scorer = mc_arg(argc, argv, "--scorer", "ptm");
    long long total;
    uint32_t x = 99;
    mc_init();
    mc_install_crash_hooks();
    err_set_loglevel(getenv("MC_LOG") ? ERR_INFO : ERR_FATAL);
    sscanf(mc_arg(argc, argv, "--shard", "0/1"), "%d/%d", &shard, &nshard);
    MAXLEN = atoi(mc_arg(argc, argv, "--len", "3"));
    for (MODE = 0; MODE < 4; MODE++)
        if (strcmp(MODENAME[MODE], mode) == 0)
            break;
    if (MODE == 4)
        return 2;
    if (MODE == 2)
        NTYPES = 11;
    fp = fopen(DATADIR "/goforward.raw", "rb");
    if (!fp)
        return 2;
    fseek(fp, 2 * 8000, SEEK_SET);
    if (fread(SPEECH, 2, 160, fp) != 160)
        return 2;
    fclose(fp);
    for (i = 0; i < 160; i++) {
        x = x * 1103515245u + 12345u;
        NOISE[i] = (int16)(x >> 16);
    }
    snprintf(dp, sizeof dp, "%s.%d.dic", getenv("MC_OUT") ? getenv("MC_OUT") : "/var/tmp/mc_numeric", (int)getpid());
    fp = fopen(dp, "w");
    fputs("a AH\nb B IY\ngo G OW\n", fp);
    fclose(fp);
    cfg = config_init(NULL);
    if (strcmp(scorer, "ptm") == 0)
        config_set_str(cfg, "hmm", MODELDIR);
    else {
        snprintf(mdir, sizeof mdir, "%s.%d.model", getenv("MC_OUT") ? getenv("MC_OUT") : "/var/tmp/mc_numeric", (int)getpid());
        rm_model(mdir);
        if (gen_model(mdir, scorer) < 0) {
            fprintf(stderr, "cannot write the synthetic model in %s\n", mdir);
            return 2;
        }
        config_set_str(cfg, "hmm", mdir);
        if (strcmp(scorer, "ms") == 0)
            config_set_str(cfg, "senmgau", ".semi.");
    }
    config_set_str(cfg, "dict", dp);
    config_set_str(cfg, "loglevel", getenv("MC_LOG") ? getenv("MC_LOG") : "FATAL");
    config_set_bool(cfg, "compallsen", atoi(mc_arg(argc, argv, "--compallsen", "1")));
    INJECT_WORST = strcmp(mc_arg(argc, argv, "--inject", "none"), "worst") == 0;
    {
        int k = atoi(mc_arg(argc, argv, "--cfg", "0")), j, sep = 0;
        char fpp[512];
        if (k < 0 || k >= NCFG)
            return 2;
        snprintf(fpp, sizeof fpp, "%s.%d.feat_params.json", getenv("MC_OUT") ? getenv("MC_OUT") : "/var/tmp/mc_numeric", (int)getpid());
        fp = fopen(fpp, "w");
        fputs("{", fp);
        for (j = 0; BASE[j][0]; j++) {
            int over = 0;
            for (i = 0; CFGS[k][i]; i += 2)
                over |= strcmp(CFGS[k][i], BASE[j][0]) == 0;
            if (!over)
                fprintf(fp, "%s\"%s\": %s", sep++ ? ",\n" : "\n", BASE[j][0], BASE[j][1]);
        }
        for (i = 0; CFGS[k][i]; i += 2)
            fprintf(fp, "%s\"%s\": %s", sep++ ? ",\n" : "\n", CFGS[k][i], CFGS[k][i + 1]);
        fputs("\n}\n", fp);
        fclose(fp);
        config_set_str(cfg, "featparams", fpp);
        D = decoder_init(cfg);
        unlink(fpp);
    }
    unlink(dp);
    if (mdir[0])
        rm_model(mdir);
    if (D)
        mc_sample("scorer %s: acoustic scoring module in use is %s", scorer, D->acmod->mgau && D->acmod->mgau->vt ? D->acmod->mgau->vt->name : "?");
    if (!D || decoder_set_jsgf_string(D, "#JSGF V1.0; grammar g; public <s> = (a | b | go)+;") < 0)
        return 2;
    if (cas) {
        int types[16], n = 0;
        const char *p = strstr(cas, "types=");
        if (!p)
            return 2;
        p += 6;
        if (MODE == 3) {
            /* replay by index: find the chain */
            long long k;
            for (k = 0; k < 16; k++) {
                int a = CHAIN[k][0], b = CHAIN[k][1];
                char want[64];
                snprintf(want, sizeof want, "types=%s/%s ", TNAME[a], TNAME[b]);
                if (strstr(cas, want)) {
                    run_index(k, NULL);
                    break;
                }
            }
            mc_finish();
            return 0;
        }
        while (*p && n < 16) {
            int k;
            size_t l = strcspn(p, ",");
            for (k = 0; k < 11; k++)
                if (strlen(TNAME[k]) == l && strncmp(TNAME[k], p, l) == 0)
                    types[n++] = k;
            p += l;
            if (*p == ',')
                p++;
        }
        mc_set_current(cas);
        run_types(types, n, cas);
        mc_finish();
        return 0;
    }
    NCHAINS = atoi(mc_arg(argc, argv, "--chains", "16"));
    NLONG = atol(mc_arg(argc, argv, "--frames", "18000"));
    if (NCHAINS > 16)
        NCHAINS = 16;
    mc_counter_names[0] = "frames_checked_at_scoring_seam";
    mc_counter_names[1] = "senone_scores_checked";
    mc_counter_names[2] = "normalisation_export_import_round_trips";
    total = MODE == 3 ? NCHAINS : count_upto(MAXLEN);
    mc_sample("mode %s: %d frame types, all sequences up to length %d repeated to %d frames: %lld utterances", mode, NTYPES, MAXLEN, NF, total);
    complete = mc_fork_loop(shard, total, nshard, MODE == 3 ? 1 : 200, 600, run_index, NULL);
    mc_stat("evaluations", mc_sh ? mc_sh->evals : 0);
    mc_stat("nontrivial", mc_sh ? mc_sh->nontriv : 0);
    for (i = 0; i < 16; i++)
        if (mc_counter_names[i] && mc_sh)
            mc_stat(mc_counter_names[i], mc_sh->counters[i]);
    mc_flag("exhaustive", complete);
    mc_finish();
    return 0;
}
