/* mc_decode_lattice.h -- C11 / C12 oracles on the lattices of the H7 exploration (placeholder until built) */
#ifndef MC_DECODE_LATTICE_H
#define MC_DECODE_LATTICE_H
static int
check_lattice(const gspec_t *g, const dc_result_t *R, int T, const char *cd, const char *when)
{
    (void)g; (void)R; (void)T; (void)cd; (void)when;
    return 0;
}
#endif
