/* mc_decode_lattice.h -- C11 (lattice well-formedness) and C12 (N-best / best path / posteriors) on the
 * lattice of every explored utterance.  The lattice is read through its public structures
 * (lattice.h); the reference enumerates all start-to-end paths (bounded) and runs a long-double
 * forward-backward over the same link scores. */
#ifndef MC_DECODE_LATTICE_H
#define MC_DECODE_LATTICE_H
#include <soundswallower/lattice.h>

#define LT_MAXN 512
#define LT_MAXPATH 20000
static latnode_t *LT_NODE[LT_MAXN];
static int LT_N;

static int
lt_index(latnode_t *n)
{
    int i;
    for (i = 0; i < LT_N; i++)
        if (LT_NODE[i] == n)
            return i;
    return -1;
}

static const char *
lt_word(latnode_t *n)
{
    const char *w = dict_wordstr(D->dict, n->wid);
    return w ? w : "(?)";
}

static int
lt_is_artificial(latnode_t *n)
{
    const char *w = lt_word(n);
    return strcmp(w, "<s>") == 0 || strcmp(w, "</s>") == 0;
}

/* label of a node in the input grammar's vocabulary: >= 0 word index, -1 filler (consumes nothing), -2 unknown */
static int
lt_label(const gspec_t *g, latnode_t *n)
{
    char base[48];
    const char *w = lt_word(n);
    int k;
    if (is_filler_word(w))
        return -1;
    dc_base(w, base, sizeof base);
    for (k = 0; k < g->nwords; k++)
        if (strcmp(g->words[k], base) == 0)
            return k;
    return -2;
}

/* grammar state sets as bit masks over the (<= 16) states of the input grammar */
static unsigned
lt_closure(unsigned set)
{
    int ch = 1, i;
    while (ch) {
        ch = 0;
        for (i = 0; i < CUR_REF.narcs; i++)
            if (CUR_REF.arcs[i].label == RG_EPS && (set >> CUR_REF.arcs[i].from & 1) && !(set >> CUR_REF.arcs[i].to & 1)) {
                set |= 1u << CUR_REF.arcs[i].to;
                ch = 1;
            }
    }
    return set;
}
static unsigned
lt_step(unsigned set, int label)
{
    unsigned out = 0;
    int i;
    if (label == -1)
        return set;
    for (i = 0; i < CUR_REF.narcs; i++)
        if (CUR_REF.arcs[i].label == label && (set >> CUR_REF.arcs[i].from & 1))
            out |= 1u << CUR_REF.arcs[i].to;
    return lt_closure(out);
}

/* all start-to-end paths: projection string and score */
typedef struct {
    char proj[160];
    int score;
} lt_path;
static lt_path *LT_PATHS;
static int LT_NPATHS, LT_PATHS_COMPLETE;

static void
lt_enum(latnode_t *n, latnode_t *end, int score, char *proj, size_t plen, int depth)
{
    latlink_list_t *x;
    size_t l0 = plen;
    if (depth > LT_MAXN || !LT_PATHS_COMPLETE)
        return;
    if (dict_real_word(D->dict, n->basewid)) {
        const char *w = dict_wordstr(D->dict, n->basewid);
        plen += snprintf(proj + plen, 160 - plen, "%s%s", plen ? " " : "", w);
        if (plen >= 159)
            plen = 159;
    }
    if (n == end) {
        if (LT_NPATHS == LT_MAXPATH)
            LT_PATHS_COMPLETE = 0;
        else {
            snprintf(LT_PATHS[LT_NPATHS].proj, sizeof LT_PATHS[0].proj, "%s", proj);
            LT_PATHS[LT_NPATHS].score = score;
            LT_NPATHS++;
        }
    } else
        for (x = n->exits; x; x = x->next)
            lt_enum(x->link->to, end, score + x->link->ascr, proj, plen, depth + 1);
    proj[l0] = 0;
}

/* best start-to-end score by dynamic programming over the (acyclic) graph, for lattices with too many paths to list */
static int LT_DPV[LT_MAXN];
static unsigned char LT_DPS[LT_MAXN];
static int
lt_dp(latnode_t *n, latnode_t *end, int depth)
{
    int i = lt_index(n), best = INT_MIN / 2;
    latlink_list_t *x;
    if (n == end)
        return 0;
    if (i < 0 || depth > LT_MAXN)
        return INT_MIN / 2;
    if (LT_DPS[i])
        return LT_DPV[i];
    for (x = n->exits; x; x = x->next) {
        int v = lt_dp(x->link->to, end, depth + 1);
        if (v > INT_MIN / 4 && v + x->link->ascr > best)
            best = v + x->link->ascr;
    }
    LT_DPS[i] = 1;
    LT_DPV[i] = best;
    return best;
}

/* can segments k.. be matched to a chain of nodes, the first of which follows `prev` over a link ending at prev_ef? */
static int
lt_chain(const dc_seg_t **segs, int ns, int k, latnode_t *prev, int prev_ef, int *fail_at, const char **why)
{
    int j, any_node = 0, any_link = 0;
    latlink_list_t *x;
    if (k == ns)
        return 1;
    for (j = 0; j < LT_N; j++) {
        latnode_t *n = LT_NODE[j];
        int linked = prev == NULL;
        if (n->sf != segs[k]->sf || strcmp(lt_word(n), segs[k]->word) != 0)
            continue;
        any_node = 1;
        if (prev)
            for (x = prev->exits; x; x = x->next)
                if (x->link->to == n && x->link->ef == prev_ef)
                    linked = 1;
        if (!linked)
            continue;
        any_link = 1;
        if (segs[k]->ef < n->fef || segs[k]->ef > n->lef)
            continue;
        if (lt_chain(segs, ns, k + 1, n, segs[k]->ef, fail_at, why))
            return 1;
    }
    if (*fail_at < k) {
        *fail_at = k;
        *why = !any_node ? "node-missing" : !any_link ? "link-missing" : "end-frame-outside-node";
    }
    return 0;
}

static int
check_lattice(const gspec_t *g, const dc_result_t *R, int T, const char *cd, const char *when)
{
    lattice_t *dag = decoder_lattice(D), *dag2;
    latnode_t *n;
    latlink_list_t *x;
    int i, nlinks = 0, order[LT_MAXN], norder = 0, indeg[LT_MAXN];
    unsigned char fwd[LT_MAXN], bwd[LT_MAXN];
    char rs[1500];
    (void)T;
    if (dag == NULL) {
        if (decoder_lattice(D) != NULL) {
            mc_viol("C11/second-call-differs", cd, "%s: decoder_lattice returned NULL, then a lattice, without new audio", when);
            return -1;
        }
        return 0;
    }
    mc_count(3, 1);
    dc_result_str(R, rs, sizeof rs);
    LT_N = 0;
    for (n = dag->nodes; n; n = n->next) {
        if (LT_N == LT_MAXN)
            return 0; /* larger than the harness tables: cannot happen within the bounds */
        LT_NODE[LT_N++] = n;
    }
    if (!dag->start || !dag->end || lt_index(dag->start) < 0 || lt_index(dag->end) < 0) {
        mc_viol("C11/start-or-end-node-missing", cd, "%s: start %p end %p not among the %d nodes; %s", when, (void *)dag->start, (void *)dag->end, LT_N, rs);
        return -1;
    }
    /* links: endpoints are nodes, times consistent */
    memset(indeg, 0, sizeof indeg);
    for (i = 0; i < LT_N; i++) {
        n = LT_NODE[i];
        if (n->sf < 0 || n->sf > dag->n_frames || (n->sf == dag->n_frames && !lt_is_artificial(n))) {
            mc_viol("C11/node-outside-utterance", cd, "%s: node %s starts at frame %d of %d; %s", when, lt_word(n), n->sf, dag->n_frames, rs);
            return -1;
        }
        for (x = n->exits; x; x = x->next) {
            latlink_t *l = x->link;
            int to = lt_index(l->to);
            nlinks++;
            if (l->from != n || to < 0) {
                mc_viol("C11/dangling-link", cd, "%s: node %s.%d has an exit link whose endpoints are not nodes of the lattice; %s", when, lt_word(n), n->sf, rs);
                return -1;
            }
            indeg[to]++;
            if (!lt_is_artificial(n) && !lt_is_artificial(l->to)) {
                if (l->ef + 1 != l->to->sf || l->ef < n->sf || l->ef >= dag->n_frames) {
                    mc_viol("C11/link-times-inconsistent", cd, "%s: link %s.%d -> %s.%d says the first word ends at frame %d (utterance has %d frames); %s", when,
                            lt_word(n), n->sf, lt_word(l->to), l->to->sf, l->ef, dag->n_frames, rs);
                    return -1;
                }
            }
        }
    }
    /* single start / single end, every node on a start-to-end path, acyclic */
    memset(fwd, 0, sizeof fwd);
    memset(bwd, 0, sizeof bwd);
    {
        int stack[LT_MAXN * 4], sp = 0;
        fwd[lt_index(dag->start)] = 1;
        stack[sp++] = lt_index(dag->start);
        while (sp) {
            n = LT_NODE[stack[--sp]];
            for (x = n->exits; x; x = x->next) {
                int to = lt_index(x->link->to);
                if (!fwd[to]) {
                    fwd[to] = 1;
                    stack[sp++] = to;
                }
            }
        }
        bwd[lt_index(dag->end)] = 1;
        stack[sp++] = lt_index(dag->end);
        while (sp) {
            n = LT_NODE[stack[--sp]];
            for (x = n->entries; x; x = x->next) {
                int fr = lt_index(x->link->from);
                if (fr >= 0 && !bwd[fr]) {
                    bwd[fr] = 1;
                    stack[sp++] = fr;
                }
            }
        }
    }
    for (i = 0; i < LT_N; i++) {
        n = LT_NODE[i];
        if (n != dag->start && n->entries == NULL) {
            mc_viol("C11/more-than-one-start", cd, "%s: node %s.%d has no entries but is not the start node %s.%d; %s", when, lt_word(n), n->sf,
                    lt_word(dag->start), dag->start->sf, rs);
            return -1;
        }
        if (n != dag->end && n->exits == NULL) {
            mc_viol("C11/more-than-one-end", cd, "%s: node %s.%d has no exits but is not the end node %s.%d; %s", when, lt_word(n), n->sf, lt_word(dag->end),
                    dag->end->sf, rs);
            return -1;
        }
        if (!fwd[i] || !bwd[i]) {
            mc_viol("C11/node-not-on-a-start-to-end-path", cd, "%s: node %s.%d is %s; %s", when, lt_word(n), n->sf,
                    !fwd[i] ? "not reachable from the start node" : "cannot reach the end node", rs);
            return -1;
        }
    }
    if (dag->start->entries != NULL || dag->end->exits != NULL) {
        mc_viol("C11/start-has-entries-or-end-has-exits", cd, "%s: start node %s.%d / end node %s.%d; %s", when, lt_word(dag->start), dag->start->sf,
                lt_word(dag->end), dag->end->sf, rs);
        return -1;
    }
    /* topological order (Kahn); failure = cycle */
    {
        int q[LT_MAXN], qh = 0, qt = 0, deg[LT_MAXN];
        memcpy(deg, indeg, sizeof deg);
        for (i = 0; i < LT_N; i++)
            if (deg[i] == 0)
                q[qt++] = i;
        while (qh < qt) {
            int k = q[qh++];
            order[norder++] = k;
            for (x = LT_NODE[k]->exits; x; x = x->next) {
                int to = lt_index(x->link->to);
                if (--deg[to] == 0)
                    q[qt++] = to;
            }
        }
        if (norder != LT_N) {
            mc_viol("C11/lattice-has-a-cycle", cd, "%s: %d of %d nodes can be ordered topologically; %s", when, norder, LT_N, rs);
            return -1;
        }
    }
    /* every path's label sequence is a grammar path from the start state: exact DP over (node, grammar state set) */
    {
        static unsigned short fam[LT_MAXN][1 << 4]; /* fam[node][k] != 0: state set with index... */
        static unsigned sets[LT_MAXN][64];
        static int nsets[LT_MAXN];
        int ns = CUR_REF.n;
        (void)fam;
        if (ns <= 16) {
            for (i = 0; i < LT_N; i++)
                nsets[i] = 0;
            for (i = 0; i < norder; i++) {
                int k = order[i], j, lab;
                n = LT_NODE[k];
                lab = lt_label(g, n);
                if (lab == -2) {
                    mc_viol("C11/word-not-in-grammar", cd, "%s: lattice node %s.%d carries a word the grammar does not contain; %s", when, lt_word(n), n->sf, rs);
                    return -1;
                }
                if (n == dag->start) {
                    sets[k][0] = lt_closure(1u << CUR_REF.start);
                    nsets[k] = 1;
                }
                /* consume this node's label in every set that reached it */
                for (j = 0; j < nsets[k]; j++) {
                    sets[k][j] = lt_step(sets[k][j], lab);
                    if (sets[k][j] == 0) {
                        mc_viol("C11/path-is-not-a-grammar-path", cd,
                                "%s: some path of the lattice up to node %s.%d spells a word sequence that is not a path from the grammar's start state; %s", when,
                                lt_word(n), n->sf, rs);
                        return -1;
                    }
                }
                for (x = n->exits; x; x = x->next) {
                    int to = lt_index(x->link->to), a, b;
                    for (a = 0; a < nsets[k]; a++) {
                        for (b = 0; b < nsets[to]; b++)
                            if (sets[to][b] == sets[k][a])
                                break;
                        if (b == nsets[to] && nsets[to] < 64)
                            sets[to][nsets[to]++] = sets[k][a];
                    }
                }
            }
        }
    }
    /* the first-best segmentation appears as a chain of linked nodes (search over all candidate nodes) */
    {
        const dc_seg_t *segs[MAXSEG];
        int ns = 0, fail_at = -1;
        const char *fail_why = "";
        for (i = 0; i < R->nseg; i++)
            if (strcmp(R->seg[i].word, "(NULL)") != 0)
                segs[ns++] = &R->seg[i];
        if (ns > 0 && !lt_chain(segs, ns, 0, NULL, -1, &fail_at, &fail_why)) {
            char sig[96];
            snprintf(sig, sizeof sig, "C11/first-best-not-a-lattice-path:%s%s", fail_why, ns == 1 ? ":one-word-result" : "");
            mc_viol(sig, cd, "%s: segment %s %d-%d of the first-best result: %s; %s", when, segs[fail_at]->word, segs[fail_at]->sf, segs[fail_at]->ef,
                    fail_why, rs);
            return -1;
        }
    }
    dag2 = decoder_lattice(D);
    if (dag2 != dag) {
        mc_viol("C11/second-call-differs", cd, "%s: a second decoder_lattice call without new audio returned a different object", when);
        return -1;
    }
    if (!P_C12)
        return 0;

    /* ---------------- C12 ---------------- */
    {
        char proj[160] = "";
        float32 ascale = (float32)(1.0 / config_float(D->config, "ascale"));
        int best = INT_MIN, k;
        latlink_t *bl;
        if (!LT_PATHS)
            LT_PATHS = malloc(sizeof(lt_path) * LT_MAXPATH);
        LT_NPATHS = 0;
        LT_PATHS_COMPLETE = 1;
        lt_enum(dag->start, dag->end, 0, proj, 0, 0);
        for (k = 0; k < LT_NPATHS; k++)
            if (LT_PATHS[k].score > best)
                best = LT_PATHS[k].score;
        if (!LT_PATHS_COMPLETE) {
            /* too many paths to list: the best score still comes from an independent dynamic program */
            memset(LT_DPS, 0, sizeof LT_DPS);
            best = lt_dp(dag->start, dag->end, 0);
            mc_count(8, 1);
        }
        /* best path */
        bl = lattice_bestpath(dag, ascale);
        if (dag->start != dag->end) {
            if (bl == NULL) {
                mc_viol("C12/bestpath-finds-nothing", cd, "%s: lattice_bestpath returned NULL on a lattice with %d paths; %s", when, LT_NPATHS, rs);
                return -1;
            }
            if (best > INT_MIN / 4 && bl->path_scr + dag->final_node_ascr != best) {
                mc_viol("C12/bestpath-not-the-highest-scoring-path", cd, "%s: best path score %d, the best of all %d start-to-end paths scores %d; %s", when,
                        bl->path_scr + dag->final_node_ascr, LT_NPATHS, best, rs);
                return -1;
            }
            {
                const char *bh = lattice_hyp(dag, bl);
                int ok = 0;
                for (k = 0; k < LT_NPATHS; k++)
                    if (LT_PATHS[k].score == bl->path_scr + dag->final_node_ascr && strcmp(LT_PATHS[k].proj, bh ? bh : "") == 0)
                        ok = 1;
                if (LT_PATHS_COMPLETE && !ok) {
                    mc_viol("C12/bestpath-hypothesis-not-a-path", cd, "%s: best path hypothesis \"%s\" (score %d) is not the word sequence of a path with that score; %s",
                            when, bh ? bh : "(null)", bl->path_scr, rs);
                    return -1;
                }
            }
            /* posteriors: long-double forward/backward over the same link scores */
            {
                int32 post = lattice_posterior(dag, ascale);
                long double delta = 2.0L + 1.0L * nlinks, fwd_total, bwd_total;
                static long double *A, *B;
                static latlink_t **LK;
                static int lkcap;
                int nl = 0, a, b;
                long double lb = logl((long double)logmath_get_base(dag->lmath));
#define LADD(x, y) ((x) == -HUGE_VALL ? (y) : (y) == -HUGE_VALL ? (x) : ((x) > (y) ? (x) + log1pl(expl(((y) - (x)) * lb)) / lb : (y) + log1pl(expl(((x) - (y)) * lb)) / lb))
                /* links in topological order of their source node (the tables hold every link of the lattice) */
                if (nlinks + 1 > lkcap) {
                    lkcap = (nlinks + 1) * 2;
                    A = realloc(A, sizeof *A * lkcap);
                    B = realloc(B, sizeof *B * lkcap);
                    LK = realloc(LK, sizeof *LK * lkcap);
                }
                for (i = 0; i < norder; i++)
                    for (x = LT_NODE[order[i]]->exits; x; x = x->next)
                        if (nl < lkcap)
                            LK[nl++] = x->link;
                for (a = 0; a < nl; a++) {
                    long double sc = (long double)(int32)((LK[a]->ascr << SENSCR_SHIFT) * ascale);
                    A[a] = -HUGE_VALL;
                    if (LK[a]->from == dag->start)
                        A[a] = sc;
                    else
                        for (b = 0; b < a; b++)
                            if (LK[b]->to == LK[a]->from)
                                A[a] = LADD(A[a], A[b] + sc);
                }
                fwd_total = -HUGE_VALL;
                for (a = 0; a < nl; a++)
                    if (LK[a]->to == dag->end)
                        fwd_total = LADD(fwd_total, A[a]);
                for (a = nl - 1; a >= 0; a--) {
                    B[a] = -HUGE_VALL;
                    if (LK[a]->to == dag->end)
                        B[a] = 0;
                    else
                        for (b = a + 1; b < nl; b++)
                            if (LK[b]->from == LK[a]->to)
                                B[a] = LADD(B[a], B[b] + (long double)(int32)((LK[b]->ascr << SENSCR_SHIFT) * ascale));
                }
                bwd_total = -HUGE_VALL;
                for (a = 0; a < nl; a++)
                    if (LK[a]->from == dag->start)
                        bwd_total = LADD(bwd_total, B[a] + (long double)(int32)((LK[a]->ascr << SENSCR_SHIFT) * ascale));
                if (fabsl(fwd_total - (long double)dag->norm) > delta) {
                    mc_viol("C12/forward-total-wrong", cd, "%s: normaliser %d, forward total over all paths %.2Lf (tolerance %.0Lf); %s", when, dag->norm, fwd_total,
                            delta, rs);
                    return -1;
                }
                {
                    /* the library's own backward total */
                    int32 lib_bwd = logmath_get_zero(dag->lmath);
                    for (x = dag->start->exits; x; x = x->next)
                        lib_bwd = logmath_add(dag->lmath, lib_bwd, x->link->beta + (int32)((x->link->ascr << SENSCR_SHIFT) * ascale));
                    if (fabsl((long double)lib_bwd - (long double)dag->norm) > 2 * delta || fabsl(bwd_total - fwd_total) > 1e-3L) {
                        mc_viol("C12/forward-and-backward-totals-disagree", cd, "%s: forward total %d, backward total %d (reference %.2Lf / %.2Lf); %s", when,
                                dag->norm, lib_bwd, fwd_total, bwd_total, rs);
                        return -1;
                    }
                }
                for (a = 0; a < nl; a++) {
                    int32 ascr, p = ps_latlink_prob(dag, LK[a], &ascr);
                    long double ref = A[a] + B[a] - fwd_total;
                    if ((long double)p > delta) {
                        mc_viol("C12/link-posterior-above-one", cd, "%s: link %s.%d -> %s.%d has log posterior %d > 0 (tolerance %.0Lf); %s", when,
                                lt_word(LK[a]->from), LK[a]->from->sf, lt_word(LK[a]->to), LK[a]->to->sf, p, delta, rs);
                        return -1;
                    }
                    if (fabsl((long double)p - ref) > 3 * delta) {
                        mc_viol("C12/link-posterior-wrong", cd, "%s: link %s.%d -> %s.%d has log posterior %d, forward-backward gives %.2Lf (tolerance %.0Lf); %s",
                                when, lt_word(LK[a]->from), LK[a]->from->sf, lt_word(LK[a]->to), LK[a]->to->sf, p, ref, 3 * delta, rs);
                        return -1;
                    }
                }
                if ((long double)post > delta) {
                    mc_viol("C12/best-path-posterior-above-one", cd, "%s: log posterior of the best path %d > 0 (tolerance %.0Lf); %s", when, post, delta, rs);
                    return -1;
                }
            }
        }
        /* N-best */
        {
            hyp_iter_t *it;
            int prev = INT_MAX, nh = 0, first = 1;
            static unsigned char seen[LT_MAXPATH];
            memset(seen, 0, LT_NPATHS);
            for (it = decoder_nbest(D); it; it = hyp_iter_next(it)) {
                int32 sc = 0;
                const char *h = hyp_iter_hyp(it, &sc);
                int ok = 0;
                nh++;
                mc_count(6, 1);
                if (sc > prev) {
                    mc_viol("C12/nbest-scores-increase", cd, "%s: hypothesis %d scores %d after %d; %s", when, nh, sc, prev, rs);
                    hyp_iter_free(it);
                    return -1;
                }
                prev = sc;
                if (LT_PATHS_COMPLETE) {
                    for (k = 0; k < LT_NPATHS; k++)
                        if (LT_PATHS[k].score == sc && strcmp(LT_PATHS[k].proj, h ? h : "") == 0) {
                            ok = 1;
                            seen[k] = 1;
                        }
                    if (!ok) {
                        mc_viol("C12/nbest-hypothesis-not-a-lattice-path", cd, "%s: hypothesis %d \"%s\" with score %d is not the word sequence of a start-to-end path with that score; %s",
                                when, nh, h ? h : "(null)", sc, rs);
                        hyp_iter_free(it);
                        return -1;
                    }
                }
                if (first && REAL_MODE)
                    mc_sample("%s %s: lattice of %d nodes, best start-to-end score %d (%s), first N-best hypothesis %d \"%.60s\"", cd, when, LT_N, best,
                              LT_PATHS_COMPLETE ? "all paths listed" : "dynamic program", sc, h ? h : "(null)");
                if (first && sc != best && best > INT_MIN / 4) {
                    mc_viol("C12/nbest-first-is-not-the-best-path", cd, "%s: first hypothesis scores %d, the best path %d; %s", when, sc, best, rs);
                    hyp_iter_free(it);
                    return -1;
                }
                first = 0;
                if (nh >= 3000) {
                    hyp_iter_free(it);
                    break;
                }
            }
            if (LT_PATHS_COMPLETE && nh < 3000 && LT_NPATHS <= 400) {
                /* the list ended by itself and the agenda cap (500) was never binding: every path must have been listed */
                for (k = 0; k < LT_NPATHS; k++)
                    if (!seen[k]) {
                        mc_viol("C12/nbest-misses-a-path", cd, "%s: the N-best list ended after %d hypotheses without \"%s\" (score %d), a start-to-end path; %s", when,
                                nh, LT_PATHS[k].proj, LT_PATHS[k].score, rs);
                        return -1;
                    }
            }
        }
    }
    return 0;
}
#endif
