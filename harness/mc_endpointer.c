/* H3 mc_endpointer -- C15: endpointed speech segments are exact excerpts with consistent times.
 * E-BFS to fixpoint over per-frame VAD decisions and end-of-stream points, on the real
 * endpointer (src/ps_endpointer.c is compiled into this unit so that the canonical state can
 * read the private struct; vad_classify is interposed with --wrap).  DESIGN.md H3.
 *
 * usage: mc_endpointer --window W --ratio R --flen F --rate SR [--case "<history>"] [--long N]
 */
#include "../engine/mc.h"
#include <math.h>
#include "ps_endpointer.c" /* from /repo/src via -I */

static int g_nextbit;
vad_class_t
__wrap_vad_classify(vad_t *vad, const short *frame)
{
    (void)vad;
    (void)frame;
    return g_nextbit ? VAD_SPEECH : VAD_NOT_SPEECH;
}

static double WINDOW, RATIO, FLEN;
static int RATE;     /* the rate the reference computes with (defaults resolved) */
static int RATE_ARG; /* the rate as the caller passes it: 0 asks for the default */
/* thresholds computed by the harness from the configured values (the documented formulas) */
static int M_maxlen, M_start, M_end, M_fs;
static double M_fl;

#define MAXQ 64
typedef struct {
    endpointer_t *ep;
    struct {
        long id;
        int flag;
    } q[MAXQ];
    int qn, in_speech, ended;
    long T; /* frames offered so far */
    long last_ret; /* id of the last frame handed back, -1 if none */
} obj_t;

enum { OP_N, OP_S, OP_END0, OP_END1, OP_ENDF, NOPS };
static const char *opn[NOPS] = { "n", "S", "end(0)", "end(1)", "end(full)" };
static const char *
opname(void *c, int op)
{
    (void)c;
    return opn[op];
}

static void
fill_frame(int16 *f, long id)
{
    int i;
    for (i = 0; i < M_fs; i++)
        f[i] = (int16)(id & 0x7fff);
    f[M_fs - 1] = (int16)((id + 1) & 0x7fff);
}

static int
frame_is(const int16 *f, long id)
{
    int i;
    for (i = 0; i < M_fs - 1; i++)
        if (f[i] != (int16)(id & 0x7fff))
            return 0;
    return f[M_fs - 1] == (int16)((id + 1) & 0x7fff);
}

static void *
fresh(void *c)
{
    obj_t *o = calloc(1, sizeof *o);
    (void)c;
    o->ep = endpointer_init(WINDOW, RATIO, VAD_LOOSE, RATE_ARG, FLEN);
    o->last_ret = -1;
    return o;
}

static void
release(void *c, void *v)
{
    obj_t *o = v;
    (void)c;
    endpointer_free(o->ep);
    free(o);
}

static void
canon(void *c, void *v, mc_buf *b)
{
    obj_t *o = v;
    endpointer_t *ep = o->ep;
    int j;
    (void)c;
    mc_buf_i(b, ep->pos);
    mc_buf_i(b, ep->n);
    mc_buf_i(b, ep->in_speech);
    mc_buf_i(b, o->ended);
    for (j = 0; j < ep->maxlen; j++)
        mc_buf_i(b, ep->is_speech[j]);
    for (j = 0; j < ep->n; j++) {
        int slot = (ep->pos + j) % ep->maxlen;
        long id = ep->buf[slot * ep->frame_size];
        mc_buf_i(b, id - (o->T & 0x7fff));
    }
    mc_buf_i(b, (long long)floor((ep->timestamp - ep->qstart_time) / ep->frame_length + 0.5));
    /* the reference model's own state */
    mc_buf_i(b, o->qn);
    mc_buf_i(b, o->in_speech);
    for (j = 0; j < o->qn; j++) {
        mc_buf_i(b, o->q[j].flag);
        mc_buf_i(b, o->q[j].id - o->T);
    }
    mc_buf_i(b, o->in_speech ? o->last_ret - o->T : 0);
}

static int
near(double a, double b)
{
    return fabs(a - b) <= 1e-6;
}

static int
apply(void *c, void *v, int op, int check, const char *hist)
{
    obj_t *o = v;
    endpointer_t *ep = o->ep;
    int j;
    (void)c;
    if (o->ended)
        return 1;
    if (op == OP_N || op == OP_S) {
        int16 *frame = malloc(M_fs * sizeof(int16));
        const int16 *ret;
        long expect_id = -1;
        int started = 0, stopped = 0, count = 0;
        fill_frame(frame, o->T);
        g_nextbit = (op == OP_S);
        ret = endpointer_process(ep, frame);
        /* ---- reference model ---- */
        if (o->qn == M_maxlen) { /* sliding window: the oldest frame falls out */
            if (o->in_speech && check) {
                free(frame);
                mc_viol("C15/model-queue-overflow-in-speech", hist, "reference queue full while in speech");
                return -1;
            }
            memmove(&o->q[0], &o->q[1], sizeof(o->q[0]) * (o->qn - 1));
            o->qn--;
        }
        o->q[o->qn].id = o->T;
        o->q[o->qn].flag = (op == OP_S);
        o->qn++;
        o->T++;
        for (j = 0; j < o->qn; j++)
            count += o->q[j].flag;
        if (o->in_speech) {
            if (count < M_end) {
                stopped = 1;
                o->in_speech = 0;
            }
            expect_id = o->q[0].id;
        } else if (count > M_start) {
            started = 1;
            o->in_speech = 1;
            expect_id = o->q[0].id;
        }
        if (expect_id >= 0) {
            memmove(&o->q[0], &o->q[1], sizeof(o->q[0]) * (o->qn - 1));
            o->qn--;
        }
        /* ---- oracle ---- */
        if (check) {
            int bad = 0;
            if ((ret != NULL) != (expect_id >= 0)) {
                mc_viol(ret ? "C15/frame-returned-outside-segment" : "C15/no-frame-returned-inside-segment", hist,
                        "frame %ld (%s): endpointer returned %s, reference (speech count %d of %d queued, start>%d end<%d) says %s",
                        o->T - 1, opn[op], ret ? "a frame" : "NULL", count, o->qn + (expect_id >= 0), M_start, M_end,
                        expect_id >= 0 ? "a frame" : "NULL");
                bad = 1;
            } else if (ret && !frame_is(ret, expect_id)) {
                mc_viol("C15/returned-frame-not-oldest-queued", hist,
                        "frame %ld: returned frame starts with sample %d/%d, expected an exact copy of frame %ld", o->T - 1,
                        ret[0], ret[M_fs - 1], expect_id);
                bad = 1;
            } else if (ret && o->last_ret >= 0 && !started && expect_id != o->last_ret + 1) {
                mc_viol("C15/gap-or-repeat-inside-segment", hist, "returned frame %ld after %ld", expect_id, o->last_ret);
                bad = 1;
            } else if (ret && expect_id <= o->last_ret) {
                mc_viol("C15/segments-overlap", hist, "returned frame %ld not after the last returned frame %ld", expect_id,
                        o->last_ret);
                bad = 1;
            } else if ((endpointer_in_speech(ep) != 0) != o->in_speech) {
                mc_viol("C15/in-speech-flag", hist, "in_speech=%d, reference %d", endpointer_in_speech(ep), o->in_speech);
                bad = 1;
            } else if (started && !near(endpointer_speech_start(ep), expect_id * M_fl)) {
                mc_viol("C15/speech-start-time", hist, "speech_start=%.9f, first returned frame %ld starts at %.9f",
                        endpointer_speech_start(ep), expect_id, expect_id * M_fl);
                bad = 1;
            } else if (stopped && !near(endpointer_speech_end(ep), (expect_id + 1) * M_fl)) {
                mc_viol("C15/speech-end-time", hist, "speech_end=%.9f, last returned frame %ld ends at %.9f",
                        endpointer_speech_end(ep), expect_id, (expect_id + 1) * M_fl);
                bad = 1;
            }
            if (bad) {
                free(frame);
                return -1;
            }
        }
        if (expect_id >= 0)
            o->last_ret = expect_id;
        free(frame);
        return 0;
    } else {
        size_t nsamp = op == OP_END0 ? 0 : op == OP_END1 ? 1 : (size_t)M_fs, out = 777777, i;
        int16 *tail = malloc(nsamp ? nsamp * sizeof(int16) : 1);
        const int16 *ret;
        int k = 0, drained, was_in = o->in_speech;
        size_t expect_out;
        double expect_end;
        for (i = 0; i < nsamp; i++)
            tail[i] = (int16)(0x7000 + (i & 0xff));
        ret = endpointer_end_stream(ep, tail, nsamp, &out);
        o->ended = 1;
        while (k < o->qn && o->q[k].flag)
            k++;
        drained = (k == o->qn);
        expect_out = (size_t)k * M_fs + (drained ? nsamp : 0);
        expect_end = drained ? o->T * M_fl + (double)nsamp / RATE : (o->last_ret + 1 + k) * M_fl;
        o->in_speech = 0;
        if (check) {
            int bad = 0;
            if (!was_in) {
                if (ret != NULL || out != 0) {
                    mc_viol("C15/end-stream-outside-segment", hist, "end_stream returned %p with %zu samples while not in speech",
                            (void *)ret, out);
                    bad = 1;
                }
            } else if (ret == NULL && expect_out > 0) {
                mc_viol("C15/end-stream-returns-nothing", hist, "end_stream returned NULL, reference has %zu samples", expect_out);
                bad = 1;
            } else if (out != expect_out) {
                mc_viol("C15/end-stream-sample-count", hist,
                        "end_stream out_nsamp=%zu, reference: %d queued speech frames x %d%s = %zu", out, k, M_fs,
                        drained ? " + trailing partial frame" : "", expect_out);
                bad = 1;
            } else {
                for (j = 0; j < k && !bad; j++)
                    if (!frame_is(ret + (size_t)j * M_fs, o->q[j].id)) {
                        mc_viol("C15/end-stream-frame-content", hist, "frame %d of the final chunk is not a copy of frame %ld", j,
                                o->q[j].id);
                        bad = 1;
                    }
                if (!bad && drained && nsamp && memcmp(ret + (size_t)k * M_fs, tail, nsamp * sizeof(int16)) != 0) {
                    mc_viol("C15/end-stream-trailing-content", hist, "trailing partial frame is not a copy of the samples given");
                    bad = 1;
                }
                if (!bad && k > 0 && o->last_ret >= 0 && o->q[0].id != o->last_ret + 1) {
                    mc_viol("C15/gap-or-repeat-inside-segment", hist, "final chunk starts at frame %ld after %ld", o->q[0].id,
                            o->last_ret);
                    bad = 1;
                }
                if (!bad && !near(endpointer_speech_end(ep), expect_end)) {
                    mc_viol("C15/speech-end-time", hist, "after end_stream speech_end=%.9f, reference %.9f",
                            endpointer_speech_end(ep), expect_end);
                    bad = 1;
                }
                if (!bad && endpointer_in_speech(ep)) {
                    mc_viol("C15/in-speech-flag", hist, "still in speech after end_stream");
                    bad = 1;
                }
            }
            if (bad) {
                free(tail);
                return -1;
            }
        }
        free(tail);
        o->qn = 0;
        return 0;
    }
}

/* the configured thresholds, by the documented formulas, computed outside the library */
static int
model_config(void)
{
    static const int rates[] = { 8000, 16000, 32000, 48000 };
    int i, closest = 0, sr = RATE ? RATE : 16000;
    double best = 0.5, fl = FLEN == 0.0 ? 0.03 : FLEN, w = WINDOW == 0.0 ? 0.3 : WINDOW, r = RATIO == 0.0 ? 0.9 : RATIO;
    int ms;
    for (i = 0; i < 4; i++) {
        double diff = fabs(1.0 - (double)rates[i] / sr);
        if (diff < best) {
            closest = rates[i];
            best = diff;
        }
    }
    if (!closest)
        return 0;
    M_fs = (int)(closest * fl);
    ms = (int)(M_fs * 1000.0 / closest + 0.5);
    if (!(M_fs * 1000 == closest * 10 || M_fs * 1000 == closest * 20 || M_fs * 1000 == closest * 30))
        return 0; /* WebRTC VAD accepts exactly 10, 20, 30 ms at the supported rates */
    (void)ms;
    M_fl = (double)M_fs / sr;
    M_maxlen = (int)(w / M_fl + 0.5);
    M_start = (int)(r * M_maxlen);
    M_end = (int)((1.0 - r) * M_maxlen + 0.5);
    if (M_start <= 0 || M_start >= M_maxlen || M_end <= 0 || M_end >= M_maxlen)
        return 0;
    RATE = sr;
    return 1;
}

static void
run_long(int p, int pat, long nlong, long *n, long *segs)
{
    obj_t *o = fresh(NULL);
    long t;
    int burst = M_maxlen + 2;
    char h[64];
    snprintf(h, sizeof h, "long:p=%d:pat=%d", p, pat);
    mc_set_current(h);
    for (t = 0; t < nlong; t++) {
        /* bursts of the pattern alternate with silence so that segments start and end */
        int bit = ((t / (burst * p)) & 1) ? 0 : (pat >> (t % p)) & 1;
        int was = o->in_speech;
        if (apply(NULL, o, bit ? OP_S : OP_N, 1, h) < 0)
            break;
        if (!was && o->in_speech)
            (*segs)++;
        (*n)++;
    }
    if (t == nlong)
        apply(NULL, o, OP_END1, 1, h);
    release(NULL, o);
}

/* explore one configuration; returns 0, or 2 on harness error */
static int
explore_config(double window, double ratio, double flen, int rate, int maxwin, const char *cas, long nlong)
{
    mc_bfs_spec sp;
    mc_bfs_result r;
    int valid;
    char cfg[200];
    WINDOW = window;
    RATIO = ratio;
    FLEN = flen;
    RATE = RATE_ARG = rate;
    snprintf(cfg, sizeof cfg, "window=%g ratio=%g flen=%g rate=%d", WINDOW, RATIO, FLEN, RATE);
    mc_set_current(cfg);
    valid = model_config();
    {
        endpointer_t *ep = endpointer_init(window, ratio, VAD_LOOSE, rate, flen);
        if ((ep != NULL) != valid) {
            mc_viol(ep ? "C15/init-accepts-impossible-config" : "C15/init-rejects-valid-config", cfg,
                    "%s: endpointer_init returned %s, documented rules say %s", cfg, ep ? "an endpointer" : "NULL",
                    valid ? "valid" : "invalid");
            endpointer_free(ep);
            return 0;
        }
        if (ep) {
            if (ep->maxlen != M_maxlen || ep->start_frames != M_start || ep->end_frames != M_end
                || (int)endpointer_frame_size(ep) != M_fs || fabs(endpointer_frame_length(ep) - M_fl) > 1e-12) {
                mc_viol("C15/thresholds-differ-from-configuration", cfg,
                        "%s: endpointer has maxlen %d start>%d end<%d frame %d, configuration implies %d %d %d %d", cfg,
                        ep->maxlen, ep->start_frames, ep->end_frames, (int)endpointer_frame_size(ep), M_maxlen, M_start, M_end,
                        M_fs);
                endpointer_free(ep);
                return 0;
            }
            endpointer_free(ep);
        }
    }
    if (!valid) {
        mc_stat("configs_rejected", 1);
        return 0;
    }
    if (cas && strncmp(cas, "window=", 7) == 0)
        return 0; /* init-level case: already re-evaluated above */
    if (M_maxlen >= MAXQ || (maxwin && M_maxlen > maxwin)) {
        mc_stat("configs_skipped_window_too_long", 1);
        return 0;
    }
    memset(&sp, 0, sizeof sp);
    sp.nops = NOPS;
    sp.fresh = fresh;
    sp.apply = apply;
    sp.canon = canon;
    sp.release = release;
    sp.opname = opname;
    sp.max_states = 3000000;
    if (cas && strncmp(cas, "long:", 5) == 0) {
        int p, pat;
        long n = 0, segs = 0;
        if (sscanf(cas, "long:p=%d:pat=%d", &p, &pat) != 2)
            return 2;
        run_long(p, pat, nlong, &n, &segs);
        return 0;
    }
    if (cas) {
        mc_stat("replay_bad", mc_bfs_replay(&sp, cas));
        return 0;
    }
    if (nlong > 0) {
        /* long periodic streams: every period-p pattern for p <= 6, nlong frames each, oracle on at
         * every step (clock drift of the accumulated double timestamps) */
        int p, pat;
        long n = 0, segs = 0;
        for (p = 1; p <= 6; p++)
            for (pat = 0; pat < (1 << p); pat++)
                run_long(p, pat, nlong, &n, &segs);
        mc_stat("long_frames", n);
        mc_stat("long_segments", segs);
        mc_stat("transitions", n);
        mc_stat("configs_explored", 1);
        return 0;
    }
    r = mc_bfs_run(&sp);
    mc_nsamples = 0;
    mc_sample("%s -> frame %d samples, window %d frames, start when >%d speech, end when <%d: %lld states, %lld transitions, fixpoint=%d",
              cfg, M_fs, M_maxlen, M_start, M_end, r.states, r.transitions, r.fixpoint);
    mc_stat("states", r.states);
    mc_stat("transitions", r.transitions);
    mc_stat("configs_explored", 1);
    mc_max("max_depth", r.max_depth_seen);
    mc_max("max_window_frames", M_maxlen);
    mc_flag("fixpoint", r.fixpoint);
    return 0;
}

int
main(int argc, char **argv)
{
    const char *cas = mc_arg(argc, argv, "--case", NULL);
    long nlong = atol(mc_arg(argc, argv, "--long", "0"));
    int maxwin = atoi(mc_arg(argc, argv, "--maxwin", "0"));
    const char *grid = mc_arg(argc, argv, "--grid", NULL);
    int shard = 0, nshard = 1, idx = 0, rc = 0;
    mc_init();
    mc_install_crash_hooks();
    err_set_loglevel(ERR_FATAL);
    sscanf(mc_arg(argc, argv, "--shard", "0/1"), "%d/%d", &shard, &nshard);
    if (grid) {
        static const double W[] = { 0, 0.06, 0.09, 0.12, 0.15, 0.18, 0.2, 0.24, 0.3, 0.36 };
        static const double R[] = { 0, 0.05, 0.34, 0.5, 0.6, 0.75, 0.9, 0.99 };
        static const double F[] = { 0, 0.01, 0.02, 0.03, 0.025 };
        static const int S[] = { 0, 8000, 16000, 11025, 44100, 4000 };
        unsigned w, r, f, s;
        for (w = 0; w < sizeof W / sizeof *W; w++)
            for (r = 0; r < sizeof R / sizeof *R; r++)
                for (f = 0; f < sizeof F / sizeof *F; f++)
                    for (s = 0; s < sizeof S / sizeof *S; s++) {
                        if (idx++ % nshard != shard)
                            continue;
                        if (mc_past_deadline())
                            continue;
                        rc |= explore_config(W[w], R[r], F[f], S[s], maxwin, NULL, nlong);
                    }
        mc_stat("configs_in_grid", idx / nshard + (idx % nshard > shard));
    } else {
        double w = atof(mc_arg(argc, argv, "--window", "0")), r = atof(mc_arg(argc, argv, "--ratio", "0")),
               f = atof(mc_arg(argc, argv, "--flen", "0"));
        int sr = atoi(mc_arg(argc, argv, "--rate", "0"));
        if (cas && strncmp(cas, "window=", 7) == 0)
            sscanf(cas, "window=%lf ratio=%lf flen=%lf rate=%d", &w, &r, &f, &sr);
        rc = explore_config(w, r, f, sr, maxwin, cas, nlong);
    }
    mc_finish();
    return rc;
}
