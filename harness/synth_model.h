/* synth_model.h -- synthetic acoustic-model parameter files written by a harness, to reach the scorer modules the
 * bundled models do not select (they all load through ptm_mgau from a senone dump). */
#ifndef SYNTH_MODEL_H
#define SYNTH_MODEL_H
#include <stdint.h>
#include <stdio.h>
#include <string.h>
#include <sys/stat.h>
#include <unistd.h>
#ifndef MODELDIR
#define MODELDIR "/repo/model/en-us"
#endif

/* ---- synthetic acoustic-model parameter files, to reach the scorers the bundled models do not select ----
 * semi: one codebook of 64 densities per stream + float mixture weights  -> s2_semi_mgau.c
 * ms:   the same files scored by the general multi-stream module         -> ms_mgau.c / ms_senone.c / ms_gauden.c
 * mixw: the bundled en-us codebooks with float mixture weights (no dump) -> ptm_mgau.c reading mixture_weights */
static uint32_t GS = 7;
static float
grnd(void)
{
    GS = GS * 1664525u + 1013904223u;
    return (GS >> 8) / 16777216.0f;
}

/* 32-bit words after the byte-order magic go through s3_put, which keeps the file checksum of s3file.c */
static uint32_t S3SUM;
static void
s3_put(FILE *f, const void *words, int n)
{
    const uint32_t *w = (const uint32_t *)words;
    int i;
    for (i = 0; i < n; i++)
        S3SUM = (S3SUM << 20 | S3SUM >> 12) + w[i];
    fwrite(words, 4, n, f);
}

static void
s3_close(FILE *f)
{
    fwrite(&S3SUM, 4, 1, f);
    fclose(f);
}

static FILE *
s3_open(const char *dir, const char *name)
{
    char p[600];
    FILE *f;
    int32_t magic = 0x11223344;
    snprintf(p, sizeof p, "%s/%s", dir, name);
    f = fopen(p, "wb");
    if (!f)
        return NULL;
    fputs("s3\nversion 1.0\nchksum0 yes\nendhdr\n", f);
    S3SUM = 0;
    fwrite(&magic, 4, 1, f);
    return f;
}

static int
gen_model(const char *dir, const char *scorer)
{
    static const char *const LINKS[] = { "mdef", "transition_matrices", "noisedict.txt", "feat_params.json", NULL };
    char a[600], b[600];
    int i, n_sen = 5126, n_feat = 3, K = 64, n_mgau = 1, which;
    FILE *f;
    int32_t hdr[7];
    if (mkdir(dir, 0700) < 0)
        return -1;
    for (i = 0; LINKS[i]; i++) {
        snprintf(a, sizeof a, "%s/%s", MODELDIR, LINKS[i]);
        snprintf(b, sizeof b, "%s/%s", dir, LINKS[i]);
        if (symlink(a, b) < 0)
            return -1;
    }
    if (strcmp(scorer, "mixw") == 0) {
        K = 128;
        n_mgau = 42;
        for (i = 0; i < 2; i++) {
            snprintf(a, sizeof a, "%s/%s", MODELDIR, i ? "variances" : "means");
            snprintf(b, sizeof b, "%s/%s", dir, i ? "variances" : "means");
            if (symlink(a, b) < 0)
                return -1;
        }
    } else
        for (which = 0; which < 2; which++) {
            int32_t n = n_mgau * n_feat * K * 13, j;
            f = s3_open(dir, which ? "variances" : "means");
            if (!f)
                return -1;
            hdr[0] = n_mgau, hdr[1] = n_feat, hdr[2] = K, hdr[3] = hdr[4] = hdr[5] = 13, hdr[6] = n;
            s3_put(f, hdr, 7);
            for (j = 0; j < n; j++) {
                float v = which ? 0.2f + 3.0f * grnd() : (j % 13 == 0 && j < K * 13 ? 12.0f : 3.0f) * (2.0f * grnd() - 1.0f);
                s3_put(f, &v, 1);
            }
            s3_close(f);
        }
    f = s3_open(dir, "mixture_weights");
    if (!f)
        return -1;
    hdr[0] = n_sen, hdr[1] = n_feat, hdr[2] = K, hdr[3] = n_sen * n_feat * K;
    s3_put(f, hdr, 4);
    for (i = 0; i < hdr[3]; i++) {
        float v = grnd();
        v = v * v * v + 1e-5f;
        s3_put(f, &v, 1);
    }
    s3_close(f);
    return 0;
}

static void
rm_model(const char *dir)
{
    static const char *const ALL[] = { "mdef", "transition_matrices", "noisedict.txt", "feat_params.json", "means", "variances", "mixture_weights", NULL };
    char b[600];
    int i;
    for (i = 0; ALL[i]; i++) {
        snprintf(b, sizeof b, "%s/%s", dir, ALL[i]);
        unlink(b);
    }
    rmdir(dir);
}

#endif
