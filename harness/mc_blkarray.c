/* H14 mc_blkarray -- the block array that holds the search history (src/blkarray_list.c), driven directly.
 *
 *   C09  (no sequence of calls leaks or corrupts memory): E-BFS to FIXPOINT over append / reset / get on lists of tiny geometry
 *        (rows x row size given by --geom RxC; the library's own initialiser takes them), lock-step with a plain reference array.
 *        After every transition: append returns the next index (or -1 exactly when rows x size entries are stored), every stored
 *        entry is returned by get, n_valid is the count; after the object is freed the allocator is back at its level (the engine's
 *        release accounting) -- a reset that forgets a row of a list that has grown past its first row shows at once.
 *   C02  (no legal alignment is lost): a list of the DEFAULT geometry (the one the search history uses) takes --appends N entries
 *        without refusing one, and returns each of them; a refused append is a word exit dropped from the history, i.e. an
 *        alignment the search can no longer report.
 *
 * usage: mc_blkarray --geom RxC [--case "<history>"] | mc_blkarray --appends N
 */
#include "../engine/mc.h"
#include <soundswallower/blkarray_list.h>
#include <soundswallower/ckd_alloc.h>
#include <soundswallower/err.h>

static int R = 3, C = 2;
#define MAXE 64
typedef struct {
    blkarray_list_t *bl;
    void *ref[MAXE];
    int n;
} obj_t;

enum { OP_APPEND, OP_RESET, OP_GET_ALL, NOPS };
static const char *
opname(void *c, int op)
{
    (void)c;
    return op == OP_APPEND ? "append" : op == OP_RESET ? "reset" : "getall";
}

static void *
fresh(void *c)
{
    obj_t *o = calloc(1, sizeof *o);
    (void)c;
    o->bl = _blkarray_list_init(R, C);
    return o;
}

static void
release(void *c, void *p)
{
    obj_t *o = p;
    (void)c;
    blkarray_list_free(o->bl);
    free(o);
}

static void
canon(void *c, void *p, mc_buf *b)
{
    obj_t *o = p;
    (void)c;
    mc_buf_i(b, o->bl->n_valid);
    mc_buf_i(b, o->bl->cur_row);
    mc_buf_i(b, o->bl->cur_row_free);
    mc_buf_i(b, o->n);
}

static int
apply(void *c, void *p, int op, int check, const char *hist)
{
    obj_t *o = p;
    int i;
    (void)c;
    switch (op) {
    case OP_APPEND: {
        void *d = ckd_malloc(8);
        int32 id = blkarray_list_append(o->bl, d);
        if (o->n == R * C) {
            ckd_free(d); /* refused entries stay with the caller */
            if (check && id != -1) {
                mc_viol("C09/blkarray-append-beyond-capacity", hist, "append on a full %dx%d list returned %d", R, C, id);
                return -1;
            }
        } else {
            if (id < 0)
                ckd_free(d);
            if (check && id != o->n) {
                mc_viol("C09/blkarray-append-index", hist, "append number %d on a %dx%d list returned %d", o->n, R, C, id);
                return -1;
            }
            if (id >= 0)
                o->ref[o->n++] = d;
        }
        break;
    }
    case OP_RESET:
        blkarray_list_reset(o->bl);
        o->n = 0;
        break;
    default:
        break;
    }
    if (!check)
        return 0;
    if (blkarray_list_n_valid(o->bl) != o->n) {
        mc_viol("C09/blkarray-count", hist, "n_valid %d, %d entries were appended since the last reset", blkarray_list_n_valid(o->bl), o->n);
        return -1;
    }
    for (i = 0; i <= o->n; i++) {
        void *g = blkarray_list_get(o->bl, i);
        if (g != (i < o->n ? o->ref[i] : NULL)) {
            mc_viol("C09/blkarray-get-differs", hist, "get(%d) of %d entries returns %s", i, o->n, g ? "another entry" : "NULL");
            return -1;
        }
    }
    return 0;
}

int
main(int argc, char **argv)
{
    const char *cas = mc_arg(argc, argv, "--case", NULL);
    long appends = atol(mc_arg(argc, argv, "--appends", "0"));
    mc_bfs_spec sp;
    mc_bfs_result r;
    mc_init();
    mc_install_crash_hooks();
    err_set_loglevel(ERR_FATAL);
    if (appends > 0 || (cas && strncmp(cas, "default geometry", 16) == 0)) {
        blkarray_list_t *bl = blkarray_list_init();
        long i, bad = -1;
        char cd[64];
        if (cas)
            sscanf(cas, "default geometry appends=%ld", &appends);
        snprintf(cd, sizeof cd, "default geometry appends=%ld", appends);
        mc_set_current(cd);
        for (i = 0; i < appends; i++) {
            long *d = ckd_malloc(sizeof *d);
            *d = i;
            if (blkarray_list_append(bl, d) != (int32)i) {
                ckd_free(d);
                bad = i;
                break;
            }
        }
        if (bad >= 0)
            mc_viol("C02/history-entry-refused", cd, "the list the search history is kept in (default geometry %dx%d) refused entry number %ld: a word exit the search can no longer report",
                    blkarray_list_maxblks(bl), blkarray_list_blksize(bl), bad);
        else
            for (i = 0; i < appends; i += 997) {
                long *g = blkarray_list_get(bl, (int32)i);
                if (!g || *g != i) {
                    mc_viol("C02/history-entry-lost", cd, "entry %ld of %ld reads back wrong", i, appends);
                    break;
                }
            }
        blkarray_list_free(bl);
        mc_sample("default geometry: %ld entries appended and read back", appends);
        mc_stat("evaluations", appends);
        mc_stat("nontrivial", appends);
        mc_stat("transitions", appends);
        mc_flag("exhaustive", 1);
        mc_finish();
        return 0;
    }
    sscanf(mc_arg(argc, argv, "--geom", "3x2"), "%dx%d", &R, &C);
    if (R < 1 || C < 1 || R * C >= MAXE)
        return 2;
    memset(&sp, 0, sizeof sp);
    sp.nops = NOPS;
    sp.fresh = fresh;
    sp.apply = apply;
    sp.canon = canon;
    sp.release = release;
    sp.opname = opname;
    sp.max_depth = 0; /* to fixpoint */
    sp.max_states = 1000000;
    if (cas) {
        size_t a0 = MC_ALLOCATED();
        int bad = mc_bfs_replay(&sp, cas);
        if (!bad && MC_ALLOCATED() != a0)
            mc_viol("leak-after-release", cas, "%ld bytes still allocated after the object was freed", (long)(MC_ALLOCATED() - a0));
        mc_stat("replay_bad", bad);
        mc_finish();
        return 0;
    }
    r = mc_bfs_run(&sp);
    if (mc_nsamples >= 8)
        mc_nsamples = 7;
    mc_sample("block array %dx%d: %lld states, %lld transitions, fixpoint=%d", R, C, r.states, r.transitions, r.fixpoint);
    mc_stat("states", r.states);
    mc_stat("transitions", r.transitions);
    mc_stat("evaluations", r.transitions);
    mc_stat("nontrivial", r.transitions);
    mc_max("max_depth", r.max_depth_seen);
    mc_flag("fixpoint", r.fixpoint);
    mc_flag("exhaustive", r.fixpoint && !mc_capped);
    mc_finish();
    return 0;
}
