/* H5 mc_jsgf -- C05: JSGF compilation preserves the language of the grammar.
 * E-ENUM over JSGF programs: every syntax tree up to a node bound over words {a,b}, rules <s> (public),
 * <x>, <X> (called y in case descriptors), sequence, alternatives, grouping, optional, star, plus, references (defined, undefined, self,
 * mutual), <NULL>, <VOID>; rendered plain, with weights on every alternative, and decorated with tags,
 * comments and quoted tokens.  Reference: denotational semantics (least fixpoint over sets of strings up to
 * length 4) + a static tail-position analysis deciding what the compiler must refuse.  DESIGN.md H5.
 *
 * usage: mc_jsgf --s1 N --s2 N,M --s3 N,M,K [--shard i/n] [--case "<descriptor>"]
 *   --s1 N      one-rule grammars, <s> up to N nodes
 *   --s2 N,M    two-rule grammars, <s> up to N nodes, <x> up to M
 *   --s3 N,M,K  three-rule grammars
 */
#include "../engine/mc.h"
#include "refgram.h"
#include <math.h>
#include <setjmp.h>
#include <soundswallower/err.h>
#include <soundswallower/fsg_model.h>
#include <soundswallower/jsgf.h>
#include <soundswallower/logmath.h>

/* ---------- exit() seam: E_FATAL must not end the exploration ---------- */
static jmp_buf exit_jb;
static int exit_armed;
void __real_exit(int);
void
__wrap_exit(int code)
{
    if (exit_armed) {
        exit_armed = 0;
        longjmp(exit_jb, 1);
    }
    __real_exit(code);
}

/* ---------- syntax trees ---------- */
enum { K_A, K_B, K_RS, K_RX, K_RY, K_RU, K_NULL, K_VOID, K_GROUP, K_OPT, K_STAR, K_PLUS, K_SEQ, K_ALT };
#define NLEAF 8
typedef struct tree_s {
    int kind;
    const struct tree_s *l, *r;
} tree_t;

#define MAXN 6
static tree_t **TREES[MAXN + 1];
static int NTREES[MAXN + 1];

static tree_t *
mk(int kind, const tree_t *l, const tree_t *r)
{
    tree_t *t = malloc(sizeof *t);
    t->kind = kind;
    t->l = l;
    t->r = r;
    return t;
}

static void
gen_trees(int maxn)
{
    int n, k, i, j, a;
    for (n = 1; n <= maxn; n++) {
        int cap = 64, cnt = 0;
        tree_t **v = malloc(sizeof(*v) * cap);
#define PUSH(t)                                  \
    do {                                         \
        if (cnt == cap) {                        \
            cap *= 2;                            \
            v = realloc(v, sizeof(*v) * cap);    \
        }                                        \
        v[cnt++] = (t);                          \
    } while (0)
        if (n == 1)
            for (k = 0; k < NLEAF; k++)
                PUSH(mk(k, NULL, NULL));
        else {
            for (k = K_GROUP; k <= K_PLUS; k++)
                for (i = 0; i < NTREES[n - 1]; i++)
                    PUSH(mk(k, TREES[n - 1][i], NULL));
            for (k = K_SEQ; k <= K_ALT; k++)
                for (a = 1; a <= n - 2; a++)
                    for (i = 0; i < NTREES[a]; i++)
                        for (j = 0; j < NTREES[n - 1 - a]; j++)
                            PUSH(mk(k, TREES[a][i], TREES[n - 1 - a][j]));
        }
        TREES[n] = v;
        NTREES[n] = cnt;
    }
}

/* tree number `idx` among all trees with 1..maxn nodes (simplest first) */
static const tree_t *
tree_at(long idx, int maxn)
{
    int n;
    for (n = 1; n <= maxn; n++) {
        if (idx < NTREES[n])
            return TREES[n][idx];
        idx -= NTREES[n];
    }
    return NULL;
}
static long
tree_count(int maxn)
{
    long c = 0;
    int n;
    for (n = 1; n <= maxn; n++)
        c += NTREES[n];
    return c;
}

/* ---------- rendering ---------- */
enum { M_PLAIN, M_WEIGHT, M_DECOR, NMODES };
typedef struct {
    char *p;
    size_t n, cap;
    int mode, altno;
} out_t;
static void
emit(out_t *o, const char *s)
{
    size_t l = strlen(s);
    if (o->n + l + 1 > o->cap) {
        o->cap = (o->n + l + 1) * 2;
        o->p = realloc(o->p, o->cap);
    }
    memcpy(o->p + o->n, s, l + 1);
    o->n += l;
}
/* precedence: 0 alternatives, 1 sequence, 2 postfix operand */
static void
render(out_t *o, const tree_t *t, int prec, int head_of_alt)
{
    /* the third rule is <X>: its name differs from <x> only in case (rule names are case-sensitive) */
    static const char *leaf[NLEAF] = { "a", "b", "<s>", "<x>", "<X>", "<undef>", "<NULL>", "<VOID>" };
    static const char *wts[4] = { "/2/ ", "/0.5/ ", "/1/ ", "/3/ " };
    if (head_of_alt && o->mode == M_WEIGHT && t->kind != K_ALT && t->kind != K_SEQ)
        emit(o, wts[o->altno++ & 3]);
    switch (t->kind) {
    case K_SEQ:
        if (prec > 1)
            emit(o, "( ");
        render(o, t->l, 1, head_of_alt);
        emit(o, " ");
        if (o->mode == M_DECOR)
            emit(o, "/* c */ ");
        render(o, t->r, 1, 0);
        if (prec > 1)
            emit(o, " )");
        break;
    case K_ALT:
        if (prec > 0)
            emit(o, "( ");
        render(o, t->l, 0, 1);
        emit(o, " | ");
        render(o, t->r, 0, 1);
        if (prec > 0)
            emit(o, " )");
        break;
    case K_GROUP:
        emit(o, "( ");
        render(o, t->l, 0, 1);
        emit(o, " )");
        break;
    case K_OPT:
        emit(o, "[ ");
        render(o, t->l, 0, 1);
        emit(o, " ]");
        break;
    case K_STAR:
    case K_PLUS:
        render(o, t->l, 2, 0);
        emit(o, t->kind == K_STAR ? "*" : "+");
        break;
    default:
        if (o->mode == M_DECOR && t->kind <= K_B) {
            emit(o, t->kind == K_A ? "\"a\"" : "b");
            if (prec < 2) /* a tag follows the whole item, so not inside the operand of * or + */
                emit(o, " {t}");
        } else if (o->mode == M_DECOR && strcmp(leaf[t->kind], "<x>") == 0)
            emit(o, "<g.x>"); /* fully qualified reference */
        else
            emit(o, leaf[t->kind]);
    }
}
/* head-of-alternative weights: a sequence's weight goes on its first item */
static void
render_top(out_t *o, const tree_t *t)
{
    render(o, t, 0, 1);
}

/* ---------- reference semantics: sets of strings over {a,b}, |w| <= 4, as 31-bit masks ---------- */
#define LMAX 4
#define NSTR 31
static int CAT[NSTR][NSTR]; /* index of concatenation or -1 if too long */
static int SLEN[NSTR];

static void
init_cat(void)
{
    int i, j, li, lj, base[LMAX + 2], l;
    base[0] = 0;
    for (l = 0; l <= LMAX; l++)
        base[l + 1] = base[l] + (1 << l);
    for (i = 0; i < NSTR; i++) {
        for (li = 0; base[li + 1] <= i; li++)
            ;
        SLEN[i] = li;
        for (j = 0; j < NSTR; j++) {
            for (lj = 0; base[lj + 1] <= j; lj++)
                ;
            if (li + lj > LMAX)
                CAT[i][j] = -1;
            else
                CAT[i][j] = base[li + lj] + (((i - base[li]) << lj) | (j - base[lj]));
        }
    }
}
typedef unsigned int set_t;
static set_t
s_cat(set_t a, set_t b)
{
    set_t r = 0;
    int i, j;
    for (i = 0; i < NSTR; i++)
        if (a >> i & 1)
            for (j = 0; j < NSTR; j++)
                if ((b >> j & 1) && CAT[i][j] >= 0)
                    r |= 1u << CAT[i][j];
    return r;
}
static set_t
s_star(set_t a)
{
    set_t x = 1, y;
    for (;;) {
        y = 1 | s_cat(a, x);
        if (y == x)
            return x;
        x = y;
    }
}

static const tree_t *RULE[3]; /* s, x, y (NULL = not defined) */
static set_t RLANG[3];
static set_t
denote(const tree_t *t)
{
    switch (t->kind) {
    case K_A:
        return 1u << 1;
    case K_B:
        return 1u << 2;
    case K_RS:
    case K_RX:
    case K_RY:
        return RULE[t->kind - K_RS] ? RLANG[t->kind - K_RS] : 0;
    case K_RU:
        return 0;
    case K_NULL:
        return 1;
    case K_VOID:
        return 0;
    case K_GROUP:
        return denote(t->l);
    case K_OPT:
        return 1 | denote(t->l);
    case K_STAR:
        return s_star(denote(t->l));
    case K_PLUS: {
        set_t a = denote(t->l);
        return s_cat(a, s_star(a));
    }
    case K_SEQ:
        return s_cat(denote(t->l), denote(t->r));
    default:
        return denote(t->l) | denote(t->r);
    }
}

/* static analysis: references reachable from <s>, undefined ones, and whether every cyclic reference is in
 * tail position all along the cycle */
static int EDGE[3][3]; /* bit0: some tail reference R->R', bit1: some non-tail reference */
static int UNDEF[3];
static void
scan_refs(const tree_t *t, int r, int tail)
{
    switch (t->kind) {
    case K_RS:
    case K_RX:
    case K_RY:
        if (RULE[t->kind - K_RS])
            EDGE[r][t->kind - K_RS] |= tail ? 1 : 2;
        else
            UNDEF[r] = 1;
        break;
    case K_RU:
        UNDEF[r] = 1;
        break;
    case K_GROUP:
    case K_OPT:
        scan_refs(t->l, r, tail);
        break;
    case K_STAR:
    case K_PLUS:
        scan_refs(t->l, r, 0);
        break;
    case K_SEQ:
        scan_refs(t->l, r, 0);
        scan_refs(t->r, r, tail);
        break;
    case K_ALT:
        scan_refs(t->l, r, tail);
        scan_refs(t->r, r, tail);
        break;
    default:
        break;
    }
}

enum { CL_OK, CL_UNDEF, CL_RECURSION };
static int
classify(void)
{
    int reach[3] = { 1, 0, 0 }, i, j, k, ch = 1, path[3][3];
    memset(EDGE, 0, sizeof EDGE);
    memset(UNDEF, 0, sizeof UNDEF);
    for (i = 0; i < 3; i++)
        if (RULE[i])
            scan_refs(RULE[i], i, 1);
    while (ch) {
        ch = 0;
        for (i = 0; i < 3; i++)
            if (reach[i])
                for (j = 0; j < 3; j++)
                    if (EDGE[i][j] && !reach[j])
                        reach[j] = ch = 1;
    }
    for (i = 0; i < 3; i++)
        if (reach[i] && UNDEF[i])
            return CL_UNDEF;
    /* reachability within the reachable call graph */
    for (i = 0; i < 3; i++)
        for (j = 0; j < 3; j++)
            path[i][j] = reach[i] && reach[j] && EDGE[i][j];
    for (k = 0; k < 3; k++)
        for (i = 0; i < 3; i++)
            for (j = 0; j < 3; j++)
                if (path[i][k] && path[k][j])
                    path[i][j] = 1;
    /* a non-tail reference i->j that lies on a cycle (j reaches i) is left/embedded recursion */
    for (i = 0; i < 3; i++)
        for (j = 0; j < 3; j++)
            if (reach[i] && (EDGE[i][j] & 2) && (i == j || path[j][i]))
                return CL_RECURSION;
    return CL_OK;
}

/* ---------- one grammar ---------- */
static logmath_t *lmath;
static int CHECK_LEAKS;
static const char *const WORDS[2] = { "a", "b" };

static int
dump(fsg_model_t *fsg, rg_gram *g, char *badword, size_t nbad)
{
    int i;
    g->n = fsg_model_n_state(fsg);
    g->start = fsg_model_start_state(fsg);
    g->final = fsg_model_final_state(fsg);
    g->narcs = 0;
    if (g->n > RG_MAXS)
        return -2;
    for (i = 0; i < g->n; i++) {
        fsg_arciter_t *it;
        for (it = fsg_model_arcs(fsg, i); it; it = fsg_arciter_next(it)) {
            fsg_link_t *l = fsg_arciter_get(it);
            rg_arc *a = &g->arcs[g->narcs];
            if (g->narcs == RG_MAXA) {
                fsg_arciter_free(it);
                return -2;
            }
            a->from = fsg_link_from_state(l);
            a->to = fsg_link_to_state(l);
            a->logp = fsg_link_logs2prob(l);
            a->label = RG_EPS;
            if (fsg_link_wid(l) >= 0) {
                const char *w = fsg_model_word_str(fsg, fsg_link_wid(l));
                if (!strcmp(w, "a") || !strcmp(w, "\"a\""))
                    a->label = 0; /* the scanner keeps the quotes of a quoted token in the word string */
                else if (!strcmp(w, "b"))
                    a->label = 1;
                else {
                    snprintf(badword, nbad, "%s", w);
                    fsg_arciter_free(it);
                    return -1;
                }
            }
            g->narcs++;
        }
    }
    return 0;
}

static set_t
accepted(const rg_gram *g)
{
    int sc[NSTR], k;
    set_t s = 0;
    rg_language(g, NULL, 2, LMAX, sc);
    for (k = 0; k < NSTR; k++)
        if (sc[k] != RG_NEG)
            s |= 1u << k;
    return s;
}

static void
set_str(set_t s, char *buf, size_t n)
{
    int k, c = 0;
    size_t o = 0;
    buf[0] = 0;
    for (k = 0; k < NSTR && o + 24 < n; k++)
        if (s >> k & 1) {
            char w[32];
            rg_string_of(k, 2, LMAX, w, WORDS);
            o += snprintf(buf + o, n - o, "%s\"%s\"", c++ ? "," : "", w);
        }
    if (!c)
        snprintf(buf, n, "(nothing)");
}

static int
count_alts(const tree_t *t)
{
    return t->kind == K_ALT ? count_alts(t->l) + count_alts(t->r) : 1;
}

static int
arcs_close(rg_gram *a, rg_gram *b)
{
    int i;
    if (a->n != b->n || a->narcs != b->narcs || a->start != b->start || a->final != b->final)
        return 0;
    for (i = 0; i < a->narcs; i++)
        if (a->arcs[i].from != b->arcs[i].from || a->arcs[i].to != b->arcs[i].to || a->arcs[i].label != b->arcs[i].label
            || abs(a->arcs[i].logp - b->arcs[i].logp) > 2)
            return 0;
    return 1;
}

typedef struct {
    int shape; /* 1, 2, 3 rules */
    long si, xi, yi;
    int sn, xn, yn; /* node bounds the indices refer to */
    int mode;
} gcase_t;

/* returns 1 non-trivial (accepted something), 0 trivial, -1 violation */
static int
run_case(const gcase_t *c)
{
    out_t o = { 0 };
    char cd[1200], badword[64] = "", s1[400], s2[400];
    jsgf_t *jsgf = NULL;
    jsgf_rule_t *rule;
    fsg_model_t *fsg = NULL, *raw = NULL, *again = NULL;
    rg_gram g, graw, g2;
    set_t expect, got;
    int cls, i, rc = 0, refused = 0;
    size_t alloc0;
    long long v0 = mc_nviol;
    const char *cname[3] = { "representable", "undefined-rule-reference", "non-tail-recursion" };

    alloc0 = MC_ALLOCATED();
    RULE[0] = tree_at(c->si, c->sn);
    RULE[1] = c->shape >= 2 ? tree_at(c->xi, c->xn) : NULL;
    RULE[2] = c->shape >= 3 ? tree_at(c->yi, c->yn) : NULL;
    o.mode = c->mode;
    emit(&o, "#JSGF V1.0; grammar g; public <s> = ");
    render_top(&o, RULE[0]);
    emit(&o, ";");
    if (RULE[1]) {
        emit(&o, " <x> = ");
        render_top(&o, RULE[1]);
        emit(&o, ";");
    }
    if (RULE[2]) {
        emit(&o, " <X> = ");
        render_top(&o, RULE[2]);
        emit(&o, ";");
    }
    snprintf(cd, sizeof cd, "shape=%d s=%ld/%d x=%ld/%d y=%ld/%d mode=%d :: %s", c->shape, c->si, c->sn, c->xi, c->xn, c->yi, c->yn, c->mode,
             o.p);
    mc_set_current(cd);

    /* reference */
    RLANG[0] = RLANG[1] = RLANG[2] = 0;
    for (;;) {
        set_t n0 = denote(RULE[0]), n1 = RULE[1] ? denote(RULE[1]) : 0, n2 = RULE[2] ? denote(RULE[2]) : 0;
        if (n0 == RLANG[0] && n1 == RLANG[1] && n2 == RLANG[2])
            break;
        RLANG[0] = n0;
        RLANG[1] = n1;
        RLANG[2] = n2;
    }
    expect = RLANG[0];
    cls = classify();

    exit_armed = 1;
    if (setjmp(exit_jb)) {
        mc_viol("C05/process-exit-during-compilation", cd, "the library called exit() while compiling this grammar (%s)", cname[cls]);
        free(o.p);
        return -1;
    }
    jsgf = jsgf_parse_string(o.p, NULL);
    if (!jsgf) {
        exit_armed = 0;
        mc_viol("C05/valid-syntax-rejected", cd, "jsgf_parse_string rejected a syntactically valid grammar");
        free(o.p);
        return -1;
    }
    rule = jsgf_get_public_rule(jsgf);
    if (!rule) {
        exit_armed = 0;
        mc_viol("C05/public-rule-not-found", cd, "jsgf_get_public_rule found no public rule");
        jsgf_grammar_free(jsgf);
        free(o.p);
        return -1;
    }
    fsg = jsgf_build_fsg(jsgf, rule, lmath, 1.0f);
    raw = jsgf_build_fsg_raw(jsgf, rule, lmath, 1.0f);
    refused = (fsg == NULL);
    if ((fsg == NULL) != (raw == NULL)) {
        mc_viol("C05/closed-and-raw-build-disagree", cd, "jsgf_build_fsg %s but jsgf_build_fsg_raw %s", fsg ? "succeeded" : "failed",
                raw ? "succeeded" : "failed");
        goto done;
    }
    if (cls != CL_OK) {
        if (!refused) {
            char sig[80];
            got = dump(fsg, &g, badword, sizeof badword) == 0 ? accepted(&g) : 0;
            set_str(got, s1, sizeof s1);
            snprintf(sig, sizeof sig, "C05/refusal-expected:%s", cname[cls]);
            mc_viol(sig, cd, "grammar has a %s and cannot be represented, but an FSG was built (it accepts %s)", cname[cls], s1);
        }
        goto done;
    }
    if (refused) {
        set_str(expect, s1, sizeof s1);
        mc_viol("C05/representable-grammar-refused", cd, "grammar is right-linear (denotes %s) but compilation failed", s1);
        goto done;
    }
    for (i = 0; i < 2; i++) {
        fsg_model_t *f = i ? raw : fsg;
        int drc = dump(f, i ? &graw : &g, badword, sizeof badword);
        if (drc == -1) {
            mc_viol("C05/unknown-word-in-fsg", cd, "%s FSG contains the word \"%s\"", i ? "raw" : "closed", badword);
            goto done;
        }
        if (drc == -2)
            goto done; /* larger than the reference evaluator's tables: cannot happen within the bounds */
        got = accepted(i ? &graw : &g);
        if (got != expect) {
            set_str(expect & ~got, s1, sizeof s1);
            set_str(got & ~expect, s2, sizeof s2);
            mc_viol(i ? "C05/raw-fsg-language-differs" : "C05/fsg-language-differs", cd,
                    "%s FSG: missing %s; extra %s (strings up to %d words)", i ? "raw" : "closed", s1, s2, LMAX);
            goto done;
        }
    }
    /* weights: per choice point the probabilities never exceed one, and at the start state they sum to one */
    {
        int st;
        for (st = 0; st < graw.n; st++) {
            double sum = 0;
            int n = 0;
            for (i = 0; i < graw.narcs; i++)
                if (graw.arcs[i].from == st) {
                    sum += exp(graw.arcs[i].logp * log(1.0001));
                    n++;
                }
            if (n && sum > 1.0 + 1e-3) {
                mc_viol("C05/weights-exceed-one", cd, "raw FSG state %d: outgoing probabilities sum to %.5f", st, sum);
                goto done;
            }
            if (st == graw.start && n == count_alts(RULE[0]) && sum < 1.0 - 1e-3 * n) {
                mc_viol("C05/weights-not-normalised", cd, "raw FSG start state: %d alternatives, probabilities sum to %.5f", n, sum);
                goto done;
            }
        }
    }
    /* history: building other rules (which may fail) and building again must not change the result */
    if (RULE[1]) {
        jsgf_rule_t *rx = jsgf_get_rule(jsgf, "g.x");
        if (rx)
            fsg_model_free(jsgf_build_fsg(jsgf, rx, lmath, 1.0f));
    }
    again = jsgf_build_fsg(jsgf, rule, lmath, 1.0f);
    if (!again) {
        mc_viol("C05/second-build-fails", cd, "the same public rule compiled once but not a second time on the same grammar object");
        goto done;
    }
    if (dump(again, &g2, badword, sizeof badword) != 0 || !arcs_close(&g, &g2)) {
        mc_viol("C05/second-build-differs", cd, "building the same rule again gives different arcs (%d vs %d arcs, %d vs %d states)", g.narcs,
                g2.narcs, g.n, g2.n);
        goto done;
    }
    rc = expect != 0;
done:
    exit_armed = 0;
    fsg_model_free(fsg);
    fsg_model_free(raw);
    fsg_model_free(again);
    jsgf_grammar_free(jsgf);
    free(o.p);
    if (CHECK_LEAKS && mc_nviol == v0 && MC_ALLOCATED() != alloc0) {
        mc_viol("leak:jsgf-grammar-or-fsg", cd, "%ld bytes still allocated after grammar and FSGs were freed", (long)(MC_ALLOCATED() - alloc0));
        return -1;
    }
    return mc_nviol != v0 ? -1 : rc;
}


/* ---------- grammar FILES that import rules from each other ----------
 * main.gram imports the public rule <x> of sub.gram (by name or with .*), and may have a private rule <y> of its own; inside sub.gram
 * <x> refers to sub.gram's OWN <y>.  Every combination of the menus below is written to a scratch directory, main.gram is compiled
 * (jsgf_parse_file, jsgf_get_public_rule, jsgf_build_fsg) and the language of the FSG is compared with the denotation computed here:
 * a reference inside an imported rule means the rule of the grammar it was written in. */
#include <sys/stat.h>
#define S_A (1u << 1)
#define S_B (1u << 2)
static int
run_import_case(int mb, int my, int sb, int sy, int form, const char *scratch)
{
    static const char *const MAINBODY[4] = { "<x>", "a <x>", "<sub.x>", "<x> | b" };
    static const char *const MAINY[3] = { "", "<y> = b;", "<y> = a a;" };
    static const char *const SUBBODY[4] = { "a <y>", "<y> b", "<y>", "<sub.y>" };
    static const char *const SUBY[3] = { "a", "b", "a | b b" };
    static const char *const FORM[2] = { "<sub.x>", "<sub.*>" };
    char path[700], cd[200], badword[64], got_s[400], exp_s[400];
    set_t ly, lx, ls, got;
    FILE *fp;
    jsgf_t *j;
    jsgf_rule_t *r;
    fsg_model_t *f;
    static rg_gram g;
    int rc;
    snprintf(cd, sizeof cd, "imports main=%d mainy=%d sub=%d suby=%d form=%d", mb, my, sb, sy, form);
    mc_set_current(cd);
    ly = sy == 0 ? S_A : sy == 1 ? S_B : (S_A | s_cat(S_B, S_B));
    lx = sb == 0 ? s_cat(S_A, ly) : sb == 1 ? s_cat(ly, S_B) : ly;
    ls = mb == 1 ? s_cat(S_A, lx) : mb == 3 ? (lx | S_B) : lx;
    mkdir(scratch, 0700);
    snprintf(path, sizeof path, "%s/sub.gram", scratch);
    fp = fopen(path, "w");
    fprintf(fp, "#JSGF V1.0;\ngrammar sub;\npublic <x> = %s;\n<y> = %s;\n", SUBBODY[sb], SUBY[sy]);
    fclose(fp);
    snprintf(path, sizeof path, "%s/main.gram", scratch);
    fp = fopen(path, "w");
    fprintf(fp, "#JSGF V1.0;\ngrammar main;\nimport %s;\npublic <s> = %s;\n%s\n", FORM[form], MAINBODY[mb], MAINY[my]);
    fclose(fp);
    j = jsgf_parse_file(path, NULL);
    rc = 1;
    if (!j) {
        mc_viol("C05/valid-syntax-rejected", cd, "%s: main.gram (import %s; public <s> = %s; %s) with sub.gram (public <x> = %s; <y> = %s;) does not parse", cd, FORM[form],
                MAINBODY[mb], MAINY[my], SUBBODY[sb], SUBY[sy]);
        rc = -1;
    } else {
        r = jsgf_get_public_rule(j);
        f = r ? jsgf_build_fsg(j, r, lmath, 1.0f) : NULL;
        if (!f) {
            mc_viol("C05/representable-grammar-refused", cd, "%s: main.gram (import %s; public <s> = %s; %s) with sub.gram (public <x> = %s; <y> = %s;) is refused", cd,
                    FORM[form], MAINBODY[mb], MAINY[my], SUBBODY[sb], SUBY[sy]);
            rc = -1;
        } else {
            if (dump(f, &g, badword, sizeof badword) < 0) {
                mc_viol("C05/fsg-has-foreign-word", cd, "%s: the FSG has a word that is not in the grammar: %s", cd, badword);
                rc = -1;
            } else if ((got = accepted(&g)) != ls) {
                set_str(got, got_s, sizeof got_s);
                set_str(ls, exp_s, sizeof exp_s);
                mc_viol("C05/fsg-language-differs", cd, "%s: main.gram (import %s; public <s> = %s; %s) with sub.gram (public <x> = %s; <y> = %s;): FSG accepts {%s}, JSGF denotes {%s}",
                        cd, FORM[form], MAINBODY[mb], MAINY[my], SUBBODY[sb], SUBY[sy], got_s, exp_s);
                rc = -1;
            }
            fsg_model_free(f);
        }
        jsgf_grammar_free(j);
    }
    unlink(path);
    snprintf(path, sizeof path, "%s/sub.gram", scratch);
    unlink(path);
    rmdir(scratch);
    return rc;
}

int
main(int argc, char **argv)
{
    const char *cas = mc_arg(argc, argv, "--case", NULL);
    int shard = 0, nshard = 1, s1 = 0, s2[2] = { 0, 0 }, s3[3] = { 0, 0, 0 };
    long long idx = 0, evals = 0, nontriv = 0, refusals = 0;
    int exhaustive = 1, mode;
    gcase_t c;
    mc_init();
    mc_install_crash_hooks();
    err_set_loglevel(ERR_FATAL);
    lmath = logmath_init(1.0001, 0, 1);
    init_cat();
    gen_trees(MAXN - 1);
    sscanf(mc_arg(argc, argv, "--shard", "0/1"), "%d/%d", &shard, &nshard);
    CHECK_LEAKS = mc_has(argc, argv, "--leaks");
    s1 = atoi(mc_arg(argc, argv, "--s1", "0"));
    sscanf(mc_arg(argc, argv, "--s2", "0,0"), "%d,%d", &s2[0], &s2[1]);
    sscanf(mc_arg(argc, argv, "--s3", "0,0,0"), "%d,%d,%d", &s3[0], &s3[1], &s3[2]);
    /* warm up stdio/allocator so the leak oracle's baseline is stable */
    mc_stat("trees_le5", tree_count(MAXN - 1));
    {
        static char scratch[600];
        int a, b, c2, d, e;
        snprintf(scratch, sizeof scratch, "%s.jsgfimp.%d", getenv("MC_OUT") ? getenv("MC_OUT") : "/var/tmp/mc_jsgf", (int)getpid());
        if (cas && sscanf(cas, "imports main=%d mainy=%d sub=%d suby=%d form=%d", &a, &b, &c2, &d, &e) == 5) {
            run_import_case(a, b, c2, d, e, scratch);
            mc_finish();
            return 0;
        }
        if (mc_has(argc, argv, "--imports")) {
            for (a = 0; a < 4; a++)
                for (b = 0; b < 3; b++)
                    for (c2 = 0; c2 < 4; c2++)
                        for (d = 0; d < 3; d++)
                            for (e = 0; e < 2; e++) {
                                int rc_ = run_import_case(a, b, c2, d, e, scratch);
                                evals++;
                                nontriv += rc_ > 0;
                                if (evals == 100 || evals == 200)
                                    mc_sample("%s", mc_current);
                            }
            mc_flag("exhaustive", 1);
            mc_stat("evaluations", evals);
            mc_stat("nontrivial", nontriv);
            mc_finish();
            return 0;
        }
    }
    if (cas) {
        memset(&c, 0, sizeof c);
        if (sscanf(cas, "shape=%d s=%ld/%d x=%ld/%d y=%ld/%d mode=%d", &c.shape, &c.si, &c.sn, &c.xi, &c.xn, &c.yi, &c.yn, &c.mode) != 8)
            return 2;
        run_case(&c);
        mc_finish();
        return 0;
    }
#define RUN()                                                   \
    do {                                                        \
        if (idx++ % nshard == shard) {                          \
            int rc_;                                            \
            if ((evals & 255) == 0 && mc_past_deadline()) {     \
                exhaustive = 0;                                 \
                goto out;                                       \
            }                                                   \
            rc_ = run_case(&c);                                 \
            evals++;                                            \
            if (rc_ > 0)                                        \
                nontriv++;                                      \
            if ((evals & (evals - 1)) == 0 && evals >= 64)      \
                mc_sample("%s", mc_current);                    \
        }                                                       \
    } while (0)
    for (mode = 0; mode < NMODES; mode++) {
        memset(&c, 0, sizeof c);
        c.mode = mode;
        if (s1) {
            c.shape = 1;
            c.sn = s1;
            c.xn = c.yn = 1;
            for (c.si = 0; c.si < tree_count(s1); c.si++)
                RUN();
        }
        if (s2[0]) {
            c.shape = 2;
            c.sn = s2[0];
            c.xn = s2[1];
            c.yn = 1;
            for (c.si = 0; c.si < tree_count(s2[0]); c.si++)
                for (c.xi = 0; c.xi < tree_count(s2[1]); c.xi++)
                    RUN();
        }
        if (s3[0]) {
            c.shape = 3;
            c.sn = s3[0];
            c.xn = s3[1];
            c.yn = s3[2];
            for (c.si = 0; c.si < tree_count(s3[0]); c.si++)
                for (c.xi = 0; c.xi < tree_count(s3[1]); c.xi++)
                    for (c.yi = 0; c.yi < tree_count(s3[2]); c.yi++)
                        RUN();
        }
    }
out:
    (void)refusals;
    mc_flag("exhaustive", exhaustive);
    mc_stat("evaluations", evals);
    mc_stat("nontrivial", nontriv);
    mc_finish();
    return 0;
}
