/* H4 mc_fe -- C06: cepstral frames do not depend on chunking, output limits or sample encoding.
 * E-BFS over chunk sequences on the real front end with tiny analysis geometries so that the
 * canonical state space (samples consumed, frames emitted, overflow buffer, pre-emphasis prior,
 * speech buffer, noise tracker) is explored completely.  src/fe_noise.c is compiled into this unit
 * so the private noise tracker can be serialised.  DESIGN.md H4.
 *
 * usage: mc_fe --geom SHIFTxSIZE|real --opts <n> --enc int16|float [--nmax N] [--case "<history>"]
 *        mc_fe --big            single huge calls on the real geometry (output limits 1, 128, unlimited)
 */
#include "../engine/mc.h"
#include <math.h>
#include "fe_noise.c" /* from /repo/src via -I */
#include <soundswallower/configuration.h>
#include <soundswallower/err.h>
#include <soundswallower/fe.h>

static int SHIFT, SIZE, NMAX, ENC_FLOAT, OPTS, REAL, ONLY_FULL;
static config_t *CFG, *CFG_REF;
static int NUTTS = 1;
static int BIGENDIAN, IN_REF; /* --endian big: the explored front ends read byte-swapped input (input_endian=big on this little-endian
                                 host); the one-call reference always reads the same signal in native order */
static int16 *SIG;
static int DIM;

/* reference: for each total length N the frames of a one-call run (+ fe_end) */
typedef struct {
    int n;
    mfcc_t *fr; /* n * DIM */
} ref_t;
static ref_t *REF; /* NMAX+1 entries */
static ref_t FULL; /* reference for NMAX: prefix of full frames */

#define MAXL 12
static int LENS[MAXL], NLENS;
static const int LIMS[3] = { 1, 2, 1 << 20 };
static char opnames[MAXL * 3 + 2][32];
static int NOPS_, OP_END;

static config_t *
make_config(void)
{
    config_t *c = config_init(NULL);
    if (REAL) {
        /* model/en-us geometry: 16 kHz, 100 frames/s, 25.625 ms window -> shift 160, size 410 */
        config_set_int(c, "samprate", 16000);
        config_set_int(c, "frate", 100);
        config_set_float(c, "wlen", 0.025625);
    } else {
        char w[32];
        config_set_int(c, "samprate", 1000);
        config_set_int(c, "frate", (long)(1000.0 / SHIFT + 0.999));
        snprintf(w, sizeof w, "%.4f", SIZE / 1000.0);
        config_set_float(c, "wlen", atof(w));
        config_set_int(c, "nfilt", 3);
        config_set_int(c, "ncep", 3);
        config_set_float(c, "lowerf", 50);
        config_set_float(c, "upperf", 450);
    }
    /* option set: bit0 remove_noise, bit1 remove_dc, bits2-3 transform, bit4 lifter, bits5-6 logspec/smoothspec, bit7 alpha=0 */
    config_set_bool(c, "remove_noise", OPTS & 1);
    config_set_bool(c, "remove_dc", (OPTS >> 1) & 1);
    config_set_str(c, "transform", ((OPTS >> 2) & 3) == 0 ? "legacy" : ((OPTS >> 2) & 3) == 1 ? "dct" : "htk");
    config_set_int(c, "lifter", (OPTS >> 4) & 1 ? 22 : 0);
    config_set_bool(c, "logspec", ((OPTS >> 5) & 3) == 1);
    config_set_bool(c, "smoothspec", ((OPTS >> 5) & 3) == 2);
    if ((OPTS >> 7) & 1)
        config_set_float(c, "alpha", 0.0);
    if (BIGENDIAN && !IN_REF)
        config_set_str(c, "input_endian", "big");
    return c;
}

typedef struct {
    fe_t *fe;
    int consumed, emitted;
    int offered; /* end of the samples the caller has shown to the front end so far: a caller cannot
                    take samples back, so every later call starts at `consumed` and reaches at least
                    `offered`, and the stream can only end once everything offered was consumed */
    int utt;     /* --utts 2: after the end of the first utterance fe_start begins a second one on the SAME front end, with
                    the same signal and the same reference; the utterance number is part of the state, so the second one is
                    explored in full whatever the abstraction below thinks of the state after fe_start */
} obj_t;

/* a case is a history under one option set: the option set is part of its name, and a replay selects it */
static const char *
fe_case(const char *hist)
{
    static char buf[16384];
    snprintf(buf, sizeof buf, "opts=%d :: %s", OPTS, hist);
    return buf;
}

static void *
fresh(void *ctx)
{
    obj_t *o = calloc(1, sizeof *o);
    (void)ctx;
    o->fe = fe_init(CFG);
    if (!o->fe) {
        fprintf(stderr, "fe_init failed\n");
        exit(2);
    }
    return o;
}
static void
release(void *ctx, void *v)
{
    obj_t *o = v;
    (void)ctx;
    fe_free(o->fe);
    free(o);
}
static const char *
opname(void *c, int op)
{
    (void)c;
    return opnames[op];
}

static void
canon(void *ctx, void *v, mc_buf *b)
{
    obj_t *o = v;
    fe_t *fe = o->fe;
    (void)ctx;
    mc_buf_i(b, o->consumed);
    mc_buf_i(b, o->emitted);
    mc_buf_i(b, o->utt);
    if (o->consumed < 0)
        return; /* ended */
    mc_buf_i(b, o->offered - o->consumed);
    mc_buf_i(b, fe->num_overflow_samps);
    if (NUTTS > 1)
        mc_buf_put(b, fe->overflow_samps, sizeof(float32) * fe->frame_size);
    else if (fe->num_overflow_samps > 0)
        mc_buf_put(b, fe->overflow_samps, sizeof(float32) * (fe->num_overflow_samps > fe->frame_size ? fe->frame_size : fe->num_overflow_samps));
    MC_PUT(b, fe->pre_emphasis_prior);
    if (o->emitted > 0 || NUTTS > 1)
        mc_buf_put(b, fe->spch, sizeof(*fe->spch) * fe->frame_size);
    if (fe->noise_stats) {
        noise_stats_t *ns = fe->noise_stats;
        mc_buf_i(b, ns->undefined);
        /* with a second utterance on the same front end the tracker's arrays are part of the state even while it calls
         * itself undefined: whether fe_start really makes them irrelevant is what is being asked */
        if (!ns->undefined || NUTTS > 1) {
            mc_buf_put(b, ns->power, sizeof(powspec_t) * ns->num_filters);
            mc_buf_put(b, ns->noise, sizeof(powspec_t) * ns->num_filters);
            mc_buf_put(b, ns->floor, sizeof(powspec_t) * ns->num_filters);
            mc_buf_put(b, ns->peak, sizeof(powspec_t) * ns->num_filters);
            MC_PUT(b, ns->slow_peak_sum);
        }
    }
}

static int
frames_equal(const mfcc_t *a, const mfcc_t *b)
{
    return memcmp(a, b, sizeof(mfcc_t) * DIM) == 0;
}

/* one processing call on an exact-size copy of the chunk, output limited to `lim` frames.
 * returns frames written; *used = samples consumed; frames copied to out (caller-sized) */
static int
call_process(fe_t *fe, int start, int len, int lim, int enc_float, mfcc_t *out, int outcap, int *used, int *ptr_ok)
{
    int k, i, nbuf = lim < outcap ? lim : outcap;
    mfcc_t **cep = malloc(sizeof(*cep) * (nbuf > 0 ? nbuf : 1));
    size_t n = len;
    for (i = 0; i < nbuf; i++)
        cep[i] = malloc(sizeof(mfcc_t) * DIM);
    if (enc_float) {
        float32 *blk = malloc(len ? len * sizeof(float32) : 1), *p = blk;
        for (i = 0; i < len; i++)
            blk[i] = SIG[start + i] / 32768.0f;
        if (BIGENDIAN && !IN_REF)
            for (i = 0; i < len; i++) {
                unsigned char *b = (unsigned char *)&blk[i], t0 = b[0], t1 = b[1];
                b[0] = b[3], b[1] = b[2], b[2] = t1, b[3] = t0;
            }
        k = fe_process_float32(fe, &p, &n, cep, nbuf);
        *ptr_ok = (p == blk + (len - (int)n));
        free(blk);
    } else {
        int16 *blk = malloc(len ? len * sizeof(int16) : 1), *p = blk;
        memcpy(blk, SIG + start, len * sizeof(int16));
        if (BIGENDIAN && !IN_REF)
            for (i = 0; i < len; i++)
                blk[i] = (int16)(((uint16)blk[i] << 8) | ((uint16)blk[i] >> 8));
        k = fe_process_int16(fe, &p, &n, cep, nbuf);
        *ptr_ok = (p == blk + (len - (int)n));
        free(blk);
    }
    *used = len - (int)n;
    for (i = 0; i < nbuf; i++) {
        if (i < k)
            memcpy(out + (size_t)i * DIM, cep[i], sizeof(mfcc_t) * DIM);
        free(cep[i]);
    }
    free(cep);
    return k;
}

static void
make_ref(ref_t *r, int N)
{
    fe_t *fe = fe_init(CFG_REF);
    int cap = N / SHIFT + 4, tot = 0, start = 0, guard = 0;
    IN_REF = 1;
    r->fr = malloc(sizeof(mfcc_t) * DIM * cap);
    while (start < N && guard++ < 4) {
        int used, ok, k = call_process(fe, start, N - start, 1 << 20, 0, r->fr + (size_t)tot * DIM, cap - tot, &used, &ok);
        tot += k;
        start += used;
    }
    if (start < N) {
        fprintf(stderr, "reference run could not consume %d samples\n", N);
        exit(2);
    }
    {
        mfcc_t *tail = r->fr + (size_t)tot * DIM;
        tot += fe_end(fe, &tail, 1);
    }
    r->n = tot;
    fe_free(fe);
    IN_REF = 0;
}

static int
apply(void *ctx, void *v, int op, int check, const char *hist)
{
    obj_t *o = v;
    (void)ctx;
    if (o->consumed < 0)
        return 1;
    if (op == OP_END) {
        mfcc_t tail[256], *tp = tail;
        int k, N = o->consumed;
        if (o->offered != o->consumed)
            return 1; /* samples still owed to the front end: a caller would call again first */
        k = fe_end(o->fe, &tp, 1);
        if (check) {
            if (o->emitted + k != REF[N].n) {
                mc_viol("C06/frame-count-depends-on-chunking", fe_case(hist),
                        "%d samples in total: %d frames (+%d at end), the one-call run gives %d", N, o->emitted, k, REF[N].n);
                return -1;
            }
            if (k == 1 && !frames_equal(tail, REF[N].fr + (size_t)(REF[N].n - 1) * DIM)) {
                mc_viol("C06/final-frame-differs", fe_case(hist), "%d samples in total: the frame written by fe_end differs (c0 %g vs %g)", N,
                        (double)tail[0], (double)REF[N].fr[(size_t)(REF[N].n - 1) * DIM]);
                return -1;
            }
        }
        o->emitted += k;
        o->consumed = -1;
        if (NUTTS > 1 && o->utt + 1 < NUTTS) {
            fe_start(o->fe);
            o->utt++;
            o->consumed = o->emitted = o->offered = 0;
        }
        return 0;
    } else {
        int li = op / 3, lim = LIMS[op % 3], len = LENS[li], used, k, ok, i;
        mfcc_t *out;
        if (li == NLENS - 1) /* "rest" */
            len = NMAX - o->consumed;
        if (len <= 0 || o->consumed + len > NMAX || o->consumed + len < o->offered)
            return 1;
        if (li == NLENS - 1)
            for (i = 0; i < NLENS - 1; i++)
                if (LENS[i] == len)
                    return 1; /* same call as an explicit length */
        out = malloc(sizeof(mfcc_t) * DIM * (len / SHIFT + 4));
        k = call_process(o->fe, o->consumed, len, lim, ENC_FLOAT, out, len / SHIFT + 4, &used, &ok);
        if (check) {
            const char *sig = NULL;
            char msg[256] = "";
            if (k < 0 || k > lim)
                sig = "C06/frames-written-exceed-limit", snprintf(msg, sizeof msg, "returned %d frames with limit %d", k, lim);
            else if (used < 0 || used > len)
                sig = "C06/consumed-more-than-offered", snprintf(msg, sizeof msg, "consumed %d of %d samples", used, len);
            else if (!ok)
                sig = "C06/pointer-and-count-disagree", snprintf(msg, sizeof msg, "sample pointer not advanced by the %d samples consumed", used);
            else if (k == 0 && used == 0)
                sig = "C06/no-progress", snprintf(msg, sizeof msg, "%d samples offered, room for %d frames: nothing consumed, nothing written", len, lim);
            else if (k > 0 && (o->emitted + k > FULL.n || (long)(o->emitted + k - 1) * SHIFT + SIZE > o->consumed + used))
                sig = "C06/frame-before-its-samples", snprintf(msg, sizeof msg, "%d frames after %d samples", o->emitted + k, o->consumed + used);
            else
                for (i = 0; i < k; i++)
                    if (!frames_equal(out + (size_t)i * DIM, FULL.fr + (size_t)(o->emitted + i) * DIM)) {
                        sig = "C06/frame-differs-from-one-call-run";
                        snprintf(msg, sizeof msg, "frame %d differs: c0 %.9g vs %.9g", o->emitted + i, (double)out[(size_t)i * DIM],
                                 (double)FULL.fr[(size_t)(o->emitted + i) * DIM]);
                        break;
                    }
            if (sig) {
                free(out);
                mc_viol(sig, fe_case(hist), "at sample %d, call %s: %s", o->consumed, opnames[op], msg);
                return -1;
            }
        }
        free(out);
        if (o->consumed + len > o->offered)
            o->offered = o->consumed + len;
        o->consumed += used;
        o->emitted += k;
        return 0;
    }
}

static int
cmp_int(const void *a, const void *b)
{
    return *(const int *)a - *(const int *)b;
}

static void
setup(void)
{
    int i, j, cand[16], nc = 0;
    uint32_t x = 12345;
    fe_t *fe;
    CFG = make_config();
    IN_REF = 1;
    CFG_REF = make_config();
    IN_REF = 0;
    fe = fe_init(CFG);
    if (!fe) {
        fprintf(stderr, "fe_init failed for geometry\n");
        exit(2);
    }
    {
        int sh, sz;
        fe_get_input_size(fe, &sh, &sz);
        if (!REAL && (sh != SHIFT || sz != SIZE)) {
            fprintf(stderr, "geometry mismatch: wanted %dx%d, front end has %dx%d\n", SHIFT, SIZE, sh, sz);
            exit(2);
        }
        SHIFT = sh;
        SIZE = sz;
    }
    DIM = fe_get_output_size(fe);
    fe_free(fe);
    if (NMAX == 0)
        NMAX = 3 * SIZE + 2 * SHIFT;
    SIG = malloc(sizeof(int16) * (NMAX + 1));
    for (i = 0; i < NMAX; i++) {
        x = x * 1103515245u + 12345u;
        SIG[i] = (int16)((x >> 9) & 0xffff);
        if (i % 11 == 3)
            SIG[i] = 32767;
        if (i % 13 == 5)
            SIG[i] = -32768;
        /* quiet beginning, loud end: what a noise tracker or a masking peak remembers of the end of one utterance
         * matters at the beginning of the next */
        if (i < NMAX / 3)
            SIG[i] = (int16)(SIG[i] / 256);
    }
    cand[nc++] = 1;
    cand[nc++] = 2;
    cand[nc++] = SHIFT - 1;
    cand[nc++] = SHIFT;
    cand[nc++] = SHIFT + 1;
    cand[nc++] = SIZE - 1;
    cand[nc++] = SIZE;
    cand[nc++] = SIZE + 1;
    cand[nc++] = SIZE + SHIFT;
    cand[nc++] = 2 * SIZE + 1;
    qsort(cand, nc, sizeof(int), cmp_int);
    NLENS = 0;
    for (i = 0; i < nc; i++)
        if (cand[i] > 0 && (NLENS == 0 || LENS[NLENS - 1] != cand[i]))
            LENS[NLENS++] = cand[i];
    LENS[NLENS++] = -1; /* rest */
    for (i = 0; i < NLENS; i++)
        for (j = 0; j < 3; j++) {
            if (i == NLENS - 1)
                snprintf(opnames[i * 3 + j], sizeof opnames[0], "rest/%s", j == 0 ? "1" : j == 1 ? "2" : "inf");
            else
                snprintf(opnames[i * 3 + j], sizeof opnames[0], "%d/%s", LENS[i], j == 0 ? "1" : j == 1 ? "2" : "inf");
        }
    OP_END = NLENS * 3;
    strcpy(opnames[OP_END], "end");
    NOPS_ = OP_END + 1;
    REF = calloc(NMAX + 1, sizeof *REF);
    for (i = ONLY_FULL ? NMAX : 0; i <= NMAX; i++)
        make_ref(&REF[i], i);
    FULL = REF[NMAX];
    /* full frames only: the last frame of FULL may be the zero-padded one from fe_end */
    FULL.n = NMAX >= SIZE ? 1 + (NMAX - SIZE) / SHIFT : 0;
}

static int
run_big(void)
{
    /* single very long calls on the real geometry with output limits 1, 128 and unlimited;
     * the caller re-offers what was not consumed, as the documentation's loop does */
    static const int lims[3] = { 1, 128, 1 << 20 };
    int N = 60000, li, i;
    long evals = 0;
    REAL = 1;
    OPTS = 0;
    NMAX = N;
    ONLY_FULL = 1;
    setup();
    for (ENC_FLOAT = 0; ENC_FLOAT < 2; ENC_FLOAT++)
        for (li = 0; li < 3; li++) {
            obj_t *o = fresh(NULL);
            char h[64];
            int guard = 0, bad = 0;
            mfcc_t *out = malloc(sizeof(mfcc_t) * DIM * (N / SHIFT + 4));
            snprintf(h, sizeof h, "big:enc=%d:lim=%d", ENC_FLOAT, lims[li]);
            mc_set_current(h);
            while (o->consumed < N && guard++ < N) {
                int used, ok, k = call_process(o->fe, o->consumed, N - o->consumed, lims[li], ENC_FLOAT, out, N / SHIFT + 4, &used, &ok);
                evals++;
                if (k == 0 && used == 0) {
                    mc_viol("C06/no-progress", h, "no progress at sample %d", o->consumed);
                    bad = 1;
                    break;
                }
                for (i = 0; i < k && !bad; i++)
                    if (o->emitted + i >= FULL.n || !frames_equal(out + (size_t)i * DIM, FULL.fr + (size_t)(o->emitted + i) * DIM)) {
                        mc_viol("C06/frame-differs-from-one-call-run", h, "frame %d differs", o->emitted + i);
                        bad = 1;
                    }
                o->consumed += used;
                o->emitted += k;
            }
            if (!bad) {
                mfcc_t tail[256], *tp = tail;
                int k = fe_end(o->fe, &tp, 1);
                if (o->emitted + k != REF[N].n)
                    mc_viol("C06/frame-count-depends-on-chunking", h, "%d frames vs %d", o->emitted + k, REF[N].n);
            }
            free(out);
            release(NULL, o);
        }
    mc_stat("transitions", evals);
    mc_stat("big_calls", 6);
    return 0;
}

int
main(int argc, char **argv)
{
    const char *cas = mc_arg(argc, argv, "--case", NULL);
    const char *geom = mc_arg(argc, argv, "--geom", "4x8");
    mc_bfs_spec sp;
    mc_bfs_result r;
    mc_init();
    mc_install_crash_hooks();
    err_set_loglevel(ERR_FATAL);
    if (mc_has(argc, argv, "--big")) {
        if (cas) {
            /* replay: same procedure, the case names the (encoding, limit) pair */
        }
        mc_set_current("big:setup");
        run_big();
        mc_finish();
        return 0;
    }
    if (strcmp(geom, "real") == 0)
        REAL = 1;
    else if (sscanf(geom, "%dx%d", &SHIFT, &SIZE) != 2)
        return 2;
    ENC_FLOAT = strcmp(mc_arg(argc, argv, "--enc", "int16"), "float") == 0;
    BIGENDIAN = strcmp(mc_arg(argc, argv, "--endian", "native"), "big") == 0;
    NUTTS = atoi(mc_arg(argc, argv, "--utts", "1"));
    {
        const char *os = mc_arg(argc, argv, "--opts", "0");
        int all = strcmp(os, "all") == 0, o, first = 1;
        int nmax0 = atoi(mc_arg(argc, argv, "--nmax", "0"));
        long long tstates = 0, ttrans = 0;
        int fix = 1, maxd = 0, nexp = 0;
        int olo = all ? 0 : atoi(os), ohi = all ? 255 : (strchr(os, '-') ? atoi(strchr(os, '-') + 1) : atoi(os));
        for (o = olo; o <= ohi; o++) {
            if (((o >> 2) & 3) == 3 || ((o >> 5) & 3) == 3)
                continue; /* not a distinct option set */
            if (mc_past_deadline()) {
                fix = 0;
                break;
            }
            OPTS = o;
            if (!first) {
                int i;
                for (i = 0; i <= NMAX; i++)
                    free(REF[i].fr);
                free(REF);
                free(SIG);
                config_free(CFG);
                config_free(CFG_REF);
                if (!REAL)
                    sscanf(geom, "%dx%d", &SHIFT, &SIZE);
            }
            NMAX = nmax0;
            first = 0;
            mc_set_current("setup: one-call reference runs");
            setup();
            memset(&sp, 0, sizeof sp);
            sp.nops = NOPS_;
            sp.fresh = fresh;
            sp.apply = apply;
            sp.canon = canon;
            sp.release = release;
            sp.opname = opname;
            sp.max_states = 2000000;
            if (cas) {
                const char *h = cas;
                int want = -1;
                if (sscanf(cas, "opts=%d :: ", &want) == 1 && strstr(cas, " :: ")) {
                    if (want != OPTS)
                        continue; /* not this option set */
                    h = strstr(cas, " :: ") + 4;
                }
                if (strncmp(h, "predict:", 8) != 0)
                    mc_stat("replay_bad", mc_bfs_replay(&sp, h));
                mc_finish();
                return 0;
            }
            /* frame-count prediction (buf_cep == NULL) must never be smaller than what is produced */
            {
                int N;
                for (N = 0; N <= NMAX; N++) {
                    fe_t *fe = fe_init(CFG);
                    int16 *p = SIG;
                    size_t n = N;
                    int pred = fe_process_int16(fe, &p, &n, NULL, 0);
                    char cd[64];
                    snprintf(cd, sizeof cd, "predict:N=%d", N);
                    if (pred < REF[N].n)
                        mc_viol("C06/frame-count-prediction-too-small", fe_case(cd), "%d samples: predicted %d frames, produced %d", N, pred,
                                REF[N].n);
                    fe_free(fe);
                }
            }
            {
                int keep = mc_nsamples;
                r = mc_bfs_run(&sp);
                if (nexp > 0)
                    mc_nsamples = keep > 6 ? keep : 6;
                else
                    mc_nsamples = mc_nsamples > 6 ? 6 : mc_nsamples;
            }
            if (nexp < 2)
                mc_sample("geometry shift=%d size=%d opts=%d enc=%s nmax=%d dim=%d: %lld states %lld transitions", SHIFT, SIZE, OPTS,
                          ENC_FLOAT ? "float32" : "int16", NMAX, DIM, r.states, r.transitions);
            tstates += r.states;
            ttrans += r.transitions;
            nexp++;
            if (!r.fixpoint)
                fix = 0;
            if (r.max_depth_seen > maxd)
                maxd = (int)r.max_depth_seen;
        }
        mc_stat("states", tstates);
        mc_stat("transitions", ttrans);
        mc_stat("explorations", nexp);
        mc_max("max_depth", maxd);
        mc_flag("fixpoint", fix);
    }
    mc_finish();
    return 0;
}
