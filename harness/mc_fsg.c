/* H6 mc_fsg -- C13: grammar transformations and FSG files preserve the grammar.
 * E-ENUM over all finite-state grammars with <= N states and <= A arcs (multisets, every start/final
 * choice) over {a, b, eps} x probabilities {1, 0.5, 1e-8} x language weight {1, 6.5}; every grammar is
 * built through the public API, transformed, written and re-read; a tropical-semiring evaluator on the
 * arc lists is the oracle.  DESIGN.md H6.
 *
 * usage: mc_fsg --states N --arcs A | --family eps4 [--shard i/n] [--case "<descriptor>"]
 */
#include "../engine/mc.h"
#include "refgram.h"
#include <math.h>
#include <soundswallower/err.h>
#include <soundswallower/fsg_model.h>
#include <soundswallower/logmath.h>
#include <soundswallower/s3file.h>

static logmath_t *lmath;
/* the two words differ only in case: a vocabulary is case-sensitive, in memory and in files */
static const char *const WORDS[4] = { "a", "A", "<sil>", "a(2)" };
static const double PROBS[3] = { 1.0, 0.5, 1e-8 };
#define LMAX 4
#define NSTR 31 /* strings over {a,b} of length <= 4 */
static const float LWS[2] = { 1.0f, 6.5f };
static const float SILPROB = 0.005f;

typedef struct {
    int n, start, final, narcs, lwi;
    int from[16], to[16], label[16], pi[16]; /* label -1 eps, 0 a, 1 b; pi index into PROBS */
} spec_t;

static void
spec_desc(const spec_t *s, char *buf, size_t n)
{
    size_t o = snprintf(buf, n, "n=%d s=%d f=%d lw=%g arcs=", s->n, s->start, s->final, (double)LWS[s->lwi]);
    int i;
    for (i = 0; i < s->narcs; i++)
        o += snprintf(buf + o, n - o, "%s%d>%d:%s:%g", i ? "," : "", s->from[i], s->to[i],
                      s->label[i] < 0 ? "eps" : WORDS[s->label[i]], PROBS[s->pi[i]]);
}

static int
spec_parse(const char *c, spec_t *s)
{
    double lw;
    const char *p;
    memset(s, 0, sizeof *s);
    if (sscanf(c, "n=%d s=%d f=%d lw=%lf", &s->n, &s->start, &s->final, &lw) != 4)
        return -1;
    s->lwi = lw > 1.5;
    p = strstr(c, "arcs=");
    if (!p)
        return -1;
    p += 5;
    while (*p) {
        char lab[16];
        double pr;
        int f, t, k;
        if (sscanf(p, "%d>%d:%15[^:]:%lf", &f, &t, lab, &pr) != 4)
            return -1;
        s->from[s->narcs] = f;
        s->to[s->narcs] = t;
        s->label[s->narcs] = strcmp(lab, "eps") == 0 ? -1 : strcmp(lab, "a") == 0 ? 0 : 1;
        for (k = 0; k < 3; k++)
            if (fabs(PROBS[k] - pr) <= PROBS[k] * 1e-6)
                s->pi[s->narcs] = k;
        s->narcs++;
        p = strchr(p, ',');
        if (!p)
            break;
        p++;
    }
    return 0;
}

static int
logp_of(double p, float lw)
{
    return (int32)(logmath_log(lmath, p) * lw); /* as every producer of arcs in the library computes it */
}

static void
spec_to_ref(const spec_t *s, rg_gram *g)
{
    int i;
    g->n = s->n;
    g->start = s->start;
    g->final = s->final;
    g->narcs = s->narcs;
    for (i = 0; i < s->narcs; i++) {
        g->arcs[i].from = s->from[i];
        g->arcs[i].to = s->to[i];
        g->arcs[i].label = s->label[i];
        g->arcs[i].logp = logp_of(PROBS[s->pi[i]], LWS[s->lwi]);
    }
}

static const char *FSGNAME = "g";
static fsg_model_t *
build(const spec_t *s)
{
    fsg_model_t *fsg = fsg_model_init(FSGNAME, lmath, LWS[s->lwi], s->n);
    int i;
    fsg->start_state = s->start;
    fsg->final_state = s->final;
    for (i = 0; i < s->narcs; i++) {
        int lp = logp_of(PROBS[s->pi[i]], LWS[s->lwi]);
        if (s->label[i] < 0)
            fsg_model_null_trans_add(fsg, s->from[i], s->to[i], lp);
        else
            fsg_model_trans_add(fsg, s->from[i], s->to[i], lp, fsg_model_word_add(fsg, WORDS[s->label[i]]));
    }
    return fsg;
}

static int
dump(fsg_model_t *fsg, rg_gram *g)
{
    int i;
    g->n = fsg_model_n_state(fsg);
    g->start = fsg_model_start_state(fsg);
    g->final = fsg_model_final_state(fsg);
    g->narcs = 0;
    for (i = 0; i < g->n; i++) {
        fsg_arciter_t *it;
        for (it = fsg_model_arcs(fsg, i); it; it = fsg_arciter_next(it)) {
            fsg_link_t *l = fsg_arciter_get(it);
            rg_arc *a = &g->arcs[g->narcs];
            int k;
            if (g->narcs == RG_MAXA) {
                fsg_arciter_free(it);
                return -1;
            }
            a->from = fsg_link_from_state(l);
            a->to = fsg_link_to_state(l);
            a->logp = fsg_link_logs2prob(l);
            a->label = RG_EPS;
            if (fsg_link_wid(l) >= 0) {
                const char *w = fsg_model_word_str(fsg, fsg_link_wid(l));
                a->label = -9;
                for (k = 0; k < 4; k++)
                    if (strcmp(w, WORDS[k]) == 0)
                        a->label = k;
            }
            if (a->from != i)
                a->label = -8; /* arc listed under the wrong state */
            g->narcs++;
        }
    }
    return 0;
}

static int
arc_cmp(const void *x, const void *y)
{
    const rg_arc *a = x, *b = y;
    if (a->from != b->from)
        return a->from - b->from;
    if (a->to != b->to)
        return a->to - b->to;
    if (a->label != b->label)
        return a->label - b->label;
    return (a->logp > b->logp) - (a->logp < b->logp);
}

static int
same_arcs(rg_gram *a, rg_gram *b)
{
    if (a->narcs != b->narcs || a->n != b->n || a->start != b->start || a->final != b->final)
        return 0;
    qsort(a->arcs, a->narcs, sizeof(rg_arc), arc_cmp);
    qsort(b->arcs, b->narcs, sizeof(rg_arc), arc_cmp);
    return memcmp(a->arcs, b->arcs, sizeof(rg_arc) * a->narcs) == 0;
}

static const int PROJ_BASE[4] = { 0, 1, -2, -2 };
static const int PROJ_SIL[4] = { 0, 1, RG_EPS, -2 };
static const int PROJ_SILALT[4] = { 0, 1, RG_EPS, 0 };

/* compare the language (accepted set and best log-probability of every string up to LMAX) */
static int
lang_equal(const int *ref, rg_gram *g, const int *proj, const char *cd, const char *sig, const char *what)
{
    int got[NSTR], k;
    char str[64];
    for (k = 0; k < g->narcs; k++)
        if (g->arcs[k].label <= -8) {
            mc_viol("C13/arc-listing-corrupt", cd, "after %s: arc %d>%d has an unknown word or sits under the wrong state", what,
                    g->arcs[k].from, g->arcs[k].to);
            return 0;
        }
    rg_language(g, proj, 2, LMAX, got);
    for (k = 0; k < NSTR; k++)
        if (got[k] != ref[k]) {
            rg_string_of(k, 2, LMAX, str, WORDS);
            if ((got[k] == RG_NEG) != (ref[k] == RG_NEG))
                mc_viol(sig, cd, "after %s: \"%s\" is %s but the grammar as specified %s it", what, str,
                        got[k] == RG_NEG ? "rejected" : "accepted", ref[k] == RG_NEG ? "rejects" : "accepts");
            else
                mc_viol(sig, cd, "after %s: best log-probability of \"%s\" is %d, specified grammar gives %d", what, str, got[k],
                        ref[k]);
            return 0;
        }
    return 1;
}

static fsg_model_t *
write_read(fsg_model_t *fsg, char **text)
{
    char *buf = NULL, *exact;
    size_t len = 0;
    FILE *fp = open_memstream(&buf, &len);
    s3file_t *s3;
    fsg_model_t *back;
    fsg_model_write(fsg, fp);
    fclose(fp);
    exact = malloc(len ? len : 1); /* exact size, no terminating NUL: what a mapped file looks like */
    memcpy(exact, buf, len);
    s3 = s3file_init(exact, len);
    back = fsg_model_read_s3file(s3, lmath, fsg->lw);
    s3file_free(s3);
    free(exact);
    *text = buf;
    return back;
}

static int
check_roundtrip(fsg_model_t *fsg, const char *cd, const char *stage)
{
    char *text = NULL;
    fsg_model_t *back = write_read(fsg, &text);
    rg_gram a, b;
    int i, ok = 1;
    if (!back) {
        char *nl;
        /* show the first transition line that cannot be read */
        nl = strstr(text, " 0.000000");
        mc_viol("C13/written-file-unreadable", cd, "%s: fsg_model_write output is rejected by fsg_model_read_s3file%s", stage,
                nl ? " (a probability was printed as 0.000000)" : "");
        free(text);
        return 0;
    }
    dump(fsg, &a);
    dump(back, &b);
    if (a.n != b.n || a.start != b.start || a.final != b.final) {
        mc_viol("C13/roundtrip-header", cd, "%s: states/start/final %d/%d/%d came back as %d/%d/%d", stage, a.n, a.start, a.final, b.n,
                b.start, b.final);
        ok = 0;
    } else if (a.narcs != b.narcs) {
        mc_viol("C13/roundtrip-arc-count", cd, "%s: %d arcs written, %d arcs read back", stage, a.narcs, b.narcs);
        ok = 0;
    } else {
        qsort(a.arcs, a.narcs, sizeof(rg_arc), arc_cmp);
        qsort(b.arcs, b.narcs, sizeof(rg_arc), arc_cmp);
        for (i = 0; i < a.narcs && ok; i++) {
            double pa = exp(a.arcs[i].logp / (double)fsg->lw * log(1.0001)), pb = exp(b.arcs[i].logp / (double)fsg->lw * log(1.0001));
            if (a.arcs[i].from != b.arcs[i].from || a.arcs[i].to != b.arcs[i].to || a.arcs[i].label != b.arcs[i].label) {
                mc_viol("C13/roundtrip-arc-differs", cd, "%s: arc %d>%d:%d came back as %d>%d:%d", stage, a.arcs[i].from, a.arcs[i].to,
                        a.arcs[i].label, b.arcs[i].from, b.arcs[i].to, b.arcs[i].label);
                ok = 0;
            } else if (fabs(pa - pb) > 5.5e-7 + 4e-4 * pa) {
                mc_viol("C13/roundtrip-probability", cd, "%s: arc %d>%d probability %.9g came back as %.9g (more than the printed precision)",
                        stage, a.arcs[i].from, a.arcs[i].to, pa, pb);
                ok = 0;
            }
        }
    }
    fsg_model_free(back);
    free(text);
    return ok;
}

/* returns 1 if the grammar accepts something (non-trivial), 0 if not, -1 on violation */
static int
run_spec(const spec_t *s)
{
    char cd[512];
    rg_gram ref, d, d2;
    int R0[NSTR], k, nontrivial = 0, i, j;
    fsg_model_t *fsg;
    glist_t nulls;
    long long v0 = mc_nviol;

    spec_desc(s, cd, sizeof cd);
    mc_set_current(cd);
    spec_to_ref(s, &ref);
    rg_language(&ref, PROJ_BASE, 2, LMAX, R0);
    for (k = 0; k < NSTR; k++)
        if (R0[k] != RG_NEG)
            nontrivial = 1;

    /* --- A: build, close, close again, write/read --- */
    fsg = build(s);
    dump(fsg, &d);
    if (!lang_equal(R0, &d, PROJ_BASE, cd, "C13/api-build-changes-grammar", "building through fsg_model_trans_add/null_trans_add"))
        goto doneA;
    nulls = fsg_model_null_trans_closure(fsg, NULL);
    glist_free(nulls);
    dump(fsg, &d);
    if (!lang_equal(R0, &d, PROJ_BASE, cd, "C13/closure-changes-grammar", "null-transition closure"))
        goto doneA;
    /* completeness: a direct null arc for every silent path between distinct states, with the best score */
    for (i = 0; i < s->n; i++) {
        int best[RG_MAXS];
        for (j = 0; j < s->n; j++)
            best[j] = RG_NEG;
        best[i] = 0;
        rg_closure(&ref, PROJ_BASE, best);
        for (j = 0; j < s->n; j++) {
            int direct = RG_NEG;
            if (j == i)
                continue;
            for (k = 0; k < d.narcs; k++)
                if (d.arcs[k].label == RG_EPS && d.arcs[k].from == i && d.arcs[k].to == j && d.arcs[k].logp > direct)
                    direct = d.arcs[k].logp;
            if (direct != best[j]) {
                mc_viol("C13/closure-incomplete", cd, "after closure: best null path %d>%d scores %d but the direct null arc has %d (%d = none)", i,
                        j, best[j], direct, RG_NEG);
                goto doneA;
            }
        }
    }
    nulls = fsg_model_null_trans_closure(fsg, NULL);
    glist_free(nulls);
    dump(fsg, &d2);
    if (!same_arcs(&d, &d2)) {
        mc_viol("C13/closure-not-idempotent", cd, "second closure changed the arc set (%d arcs -> %d arcs)", d.narcs, d2.narcs);
        goto doneA;
    }
    check_roundtrip(fsg, cd, "closed grammar");
doneA:
    fsg_model_free(fsg);
    if (mc_nviol == v0) {
        /* the name after FSG_BEGIN is optional: the same grammar without a name */
        FSGNAME = NULL;
        fsg = build(s);
        FSGNAME = "g";
        glist_free(fsg_model_null_trans_closure(fsg, NULL)); /* the reader closes, so compare closed with closed */
        check_roundtrip(fsg, cd, "grammar without a name");
        fsg_model_free(fsg);
    }
    if (mc_nviol != v0)
        return -1;

    /* --- B: silence, silence again, alternates, closure, write/read (the order the decoder uses) --- */
    fsg = build(s);
    {
        int nadded = fsg_model_add_silence(fsg, "<sil>", -1, SILPROB), expect_lp = (int32)(logmath_log(lmath, SILPROB) * LWS[s->lwi]);
        int nsil = 0;
        dump(fsg, &d);
        for (k = 0; k < d.narcs; k++)
            if (d.arcs[k].label == 2) {
                nsil++;
                if (d.arcs[k].from != d.arcs[k].to || d.arcs[k].logp != expect_lp) {
                    mc_viol("C13/silence-arc-wrong", cd, "silence arc %d>%d with log-probability %d (expected a self-loop with %d)",
                            d.arcs[k].from, d.arcs[k].to, d.arcs[k].logp, expect_lp);
                    goto doneB;
                }
            }
        if (nsil != s->n || nadded != s->n) {
            mc_viol("C13/silence-arc-count", cd, "%d silence self-loops (reported %d) for %d states", nsil, nadded, s->n);
            goto doneB;
        }
        if (!fsg_model_is_filler(fsg, fsg_model_word_id(fsg, "<sil>"))) {
            mc_viol("C13/silence-not-marked-filler", cd, "<sil> not marked as filler");
            goto doneB;
        }
        if (!lang_equal(R0, &d, PROJ_SIL, cd, "C13/silence-changes-grammar", "adding silence self-loops"))
            goto doneB;
        fsg_model_add_silence(fsg, "<sil>", -1, SILPROB);
        dump(fsg, &d2);
        if (!same_arcs(&d, &d2)) {
            mc_viol("C13/silence-not-idempotent", cd, "adding silence twice changed the arc set (%d -> %d arcs)", d.narcs, d2.narcs);
            goto doneB;
        }
    }
    {
        int has_a = fsg_model_word_id(fsg, "a") >= 0, rc = fsg_model_add_alt(fsg, "a", "a(2)"), na = 0, nalt = 0;
        dump(fsg, &d);
        for (k = 0; k < d.narcs; k++) {
            na += d.arcs[k].label == 0;
            nalt += d.arcs[k].label == 3;
        }
        if ((rc < 0) != !has_a || (has_a && (rc != na || nalt != na))) {
            mc_viol("C13/alt-arc-count", cd, "add_alt returned %d: %d arcs for the base word, %d for the alternate", rc, na, nalt);
            goto doneB;
        }
        if (has_a && (!fsg_model_is_alt(fsg, fsg_model_word_id(fsg, "a(2)")) || fsg_model_is_alt(fsg, fsg_model_word_id(fsg, "a")))) {
            mc_viol("C13/alt-flag", cd, "alternate flags wrong after add_alt");
            goto doneB;
        }
        if (!lang_equal(R0, &d, PROJ_SILALT, cd, "C13/alternates-change-grammar", "adding alternate-pronunciation arcs"))
            goto doneB;
    }
    nulls = fsg_model_null_trans_closure(fsg, NULL);
    glist_free(nulls);
    dump(fsg, &d);
    if (!lang_equal(R0, &d, PROJ_SILALT, cd, "C13/closure-changes-grammar", "closure after silence and alternates"))
        goto doneB;
    check_roundtrip(fsg, cd, "grammar with silence and alternates");
doneB:
    fsg_model_free(fsg);
    if (mc_nviol != v0)
        return -1;
    return nontrivial;
}


/* ---------- vocabularies that outgrow their first allocations ----------
 * V real words on the arcs of a 2-state grammar, silence and a second filler added before or after A alternates (fsg_model_add_alt).
 * The per-word flag sets (filler, alternate) are reallocated as the vocabulary grows; every word must keep its class, and the
 * arcs of real words must be exactly the V base arcs plus the A alternate arcs. */
static int
run_bigvocab(int V, int A, int silfirst)
{
    char cd[120], w[24], w2[24];
    fsg_model_t *fsg = fsg_model_init("big", lmath, 1.0f, 2);
    int i, rc = 1, nreal = 0, nfill = 0;
    snprintf(cd, sizeof cd, "bigvocab V=%d A=%d silfirst=%d", V, A, silfirst);
    mc_set_current(cd);
    fsg->start_state = 0;
    fsg->final_state = 1;
    for (i = 0; i < V; i++) {
        snprintf(w, sizeof w, "w%d", i);
        fsg_model_trans_add(fsg, 0, 1, -10, fsg_model_word_add(fsg, w));
    }
    if (silfirst) {
        fsg_model_add_silence(fsg, "<sil>", -1, 0.1f);
        fsg_model_add_silence(fsg, "[NOISE]", -1, 0.05f);
    }
    for (i = 0; i < A && i < V; i++) {
        snprintf(w, sizeof w, "w%d", i);
        snprintf(w2, sizeof w2, "w%d(2)", i);
        if (fsg_model_add_alt(fsg, w, w2) != 1) {
            mc_viol("C13/alt-arc-count", cd, "%s: add_alt(%s, %s) did not add exactly one arc", cd, w, w2);
            rc = -1;
            goto done;
        }
    }
    if (!silfirst) {
        fsg_model_add_silence(fsg, "<sil>", -1, 0.1f);
        fsg_model_add_silence(fsg, "[NOISE]", -1, 0.05f);
    }
    for (i = 0; i < fsg_model_n_word(fsg); i++) {
        const char *ws = fsg_model_word_str(fsg, i);
        int want_filler = !strcmp(ws, "<sil>") || !strcmp(ws, "[NOISE]"), want_alt = strstr(ws, "(2)") != NULL;
        if (!!fsg_model_is_filler(fsg, i) != want_filler) {
            mc_viol(want_filler ? "C13/silence-not-marked-filler" : "C13/word-marked-filler", cd, "%s: word %d (%s) %s marked as filler", cd, i, ws, want_filler ? "is no longer" : "is");
            rc = -1;
            goto done;
        }
        if (!!fsg_model_is_alt(fsg, i) != want_alt) {
            mc_viol("C13/alt-flag", cd, "%s: word %d (%s) %s marked as alternate", cd, i, ws, want_alt ? "is not" : "is");
            rc = -1;
            goto done;
        }
    }
    for (i = 0; i < 2; i++) {
        fsg_arciter_t *it;
        for (it = fsg_model_arcs(fsg, i); it; it = fsg_arciter_next(it)) {
            fsg_link_t *l = fsg_arciter_get(it);
            if (fsg_link_wid(l) < 0)
                continue;
            if (fsg_model_is_filler(fsg, fsg_link_wid(l))) {
                nfill++;
                if (fsg_link_from_state(l) != fsg_link_to_state(l)) {
                    mc_viol("C13/silence-arc-wrong", cd, "%s: filler arc %d>%d is not a self-loop", cd, fsg_link_from_state(l), fsg_link_to_state(l));
                    rc = -1;
                }
            } else {
                nreal++;
                if (fsg_link_from_state(l) != 0 || fsg_link_to_state(l) != 1) {
                    mc_viol("C13/silence-changes-grammar", cd, "%s: an arc %d>%d with the real word %s: the sequences of real words the grammar accepts changed", cd,
                            fsg_link_from_state(l), fsg_link_to_state(l), fsg_model_word_str(fsg, fsg_link_wid(l)));
                    rc = -1;
                }
            }
        }
    }
    if (rc > 0 && (nreal != V + (A < V ? A : V) || nfill != 4)) {
        mc_viol("C13/silence-changes-grammar", cd, "%s: %d arcs of real words (expected %d) and %d filler self-loops (expected 4)", cd, nreal, V + (A < V ? A : V), nfill);
        rc = -1;
    }
done:
    fsg_model_free(fsg);
    return rc;
}

int
main(int argc, char **argv)
{
    const char *cas = mc_arg(argc, argv, "--case", NULL);
    int NS = atoi(mc_arg(argc, argv, "--states", "2")), NA = atoi(mc_arg(argc, argv, "--arcs", "3"));
    int shard = 0, nshard = 1;
    long long idx = 0, evals = 0, nontriv = 0;
    spec_t s;
    mc_init();
    mc_install_crash_hooks();
    err_set_loglevel(ERR_FATAL);
    lmath = logmath_init(1.0001, 0, 1);
    sscanf(mc_arg(argc, argv, "--shard", "0/1"), "%d/%d", &shard, &nshard);
    if (cas) {
        int V, A, sf;
        if (sscanf(cas, "bigvocab V=%d A=%d silfirst=%d", &V, &A, &sf) == 3) {
            run_bigvocab(V, A, sf);
            mc_finish();
            return 0;
        }
        if (spec_parse(cas, &s) < 0)
            return 2;
        run_spec(&s);
        mc_finish();
        return 0;
    }
    {
        int V, A, sf;
        if (cas && sscanf(cas, "bigvocab V=%d A=%d silfirst=%d", &V, &A, &sf) == 3) {
            run_bigvocab(V, A, sf);
            mc_finish();
            return 0;
        }
        if (strcmp(mc_arg(argc, argv, "--family", "all"), "bigvocab") == 0) {
            for (V = 5; V <= 70; V++)
                for (A = 0; A <= 30; A++)
                    for (sf = 0; sf < 2; sf++) {
                        int rc_ = run_bigvocab(V, A, sf);
                        evals++;
                        nontriv += rc_ > 0;
                    }
            mc_sample("bigvocab: V in 5..70 real words x A in 0..30 alternates x fillers before/after the alternates");
            mc_stat("evaluations", evals);
            mc_stat("nontrivial", nontriv);
            mc_flag("exhaustive", 1);
            mc_finish();
            return 0;
        }
    }
    if (strcmp(mc_arg(argc, argv, "--family", "all"), "eps4") == 0) {
        /* the null-transition family: 4 states, every ordered pair of distinct states carries no null arc, one of
         * probability 0.5 or one of probability 1e-8 (3^12 graphs, every labelling and so every processing order of the
         * closure), plus one word arc so that the language is not empty */
        long long g, total = 531441;
        int exhaustive = 1;
        for (g = shard; g < total; g += nshard) {
            long long c = g;
            int i, j;
            if ((g & 1023) == 0 && mc_past_deadline()) {
                exhaustive = 0;
                break;
            }
            memset(&s, 0, sizeof s);
            s.n = 4;
            s.start = 0;
            s.final = 3;
            for (i = 0; i < 4; i++)
                for (j = 0; j < 4; j++) {
                    int v;
                    if (i == j)
                        continue;
                    v = (int)(c % 3);
                    c /= 3;
                    if (v) {
                        s.from[s.narcs] = i;
                        s.to[s.narcs] = j;
                        s.label[s.narcs] = -1;
                        s.pi[s.narcs] = v; /* PROBS[1] = 0.5, PROBS[2] = 1e-8 */
                        s.narcs++;
                    }
                }
            s.from[s.narcs] = 3;
            s.to[s.narcs] = 3;
            s.label[s.narcs] = 0;
            s.pi[s.narcs] = 0;
            s.narcs++;
            {
                int rc = run_spec(&s);
                evals++;
                if (rc > 0)
                    nontriv++;
                if ((evals & (evals - 1)) == 0 && evals >= 256) {
                    char cd[512];
                    spec_desc(&s, cd, sizeof cd);
                    mc_sample("%s", cd);
                }
            }
        }
        mc_flag("exhaustive", exhaustive);
    } else {
        int n, na, st, fi, lwi, t[8], i, ntypes;
        int exhaustive = 1;
        for (n = 1; n <= NS; n++) {
            ntypes = n * n * 9; /* (from,to) x label{a,b,eps} x prob */
            for (na = 0; na <= NA; na++) {
                for (i = 0; i < na; i++)
                    t[i] = 0;
                for (;;) {
                    /* one multiset of arc types t[0] <= t[1] <= ... */
                    for (st = 0; st < n; st++)
                        for (fi = 0; fi < n; fi++)
                            for (lwi = 0; lwi < 2; lwi++) {
                                if (idx++ % nshard != shard)
                                    continue;
                                if ((idx & 1023) == 0 && mc_past_deadline()) {
                                    exhaustive = 0;
                                    goto out;
                                }
                                memset(&s, 0, sizeof s);
                                s.n = n;
                                s.start = st;
                                s.final = fi;
                                s.lwi = lwi;
                                s.narcs = na;
                                for (i = 0; i < na; i++) {
                                    int ty = t[i];
                                    s.pi[i] = ty % 3;
                                    ty /= 3;
                                    s.label[i] = ty % 3 - 1;
                                    ty /= 3;
                                    s.to[i] = ty % n;
                                    s.from[i] = ty / n;
                                }
                                {
                                    int rc = run_spec(&s);
                                    evals++;
                                    if (rc > 0)
                                        nontriv++;
                                    if ((evals & (evals - 1)) == 0 && evals >= 256) {
                                        char cd[512];
                                        spec_desc(&s, cd, sizeof cd);
                                        mc_sample("%s", cd);
                                    }
                                }
                            }
                    /* next multiset */
                    for (i = na - 1; i >= 0; i--)
                        if (t[i] < ntypes - 1)
                            break;
                    if (i < 0)
                        break;
                    t[i]++;
                    {
                        int j;
                        for (j = i + 1; j < na; j++)
                            t[j] = t[i];
                    }
                }
            }
        }
    out:
        mc_flag("exhaustive", exhaustive);
    }
    mc_stat("evaluations", evals);
    mc_stat("nontrivial", nontriv);
    mc_finish();
    return 0;
}
