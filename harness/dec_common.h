/* dec_common.h -- shared pieces of the decoder harnesses (H7 mc_decode, H9 mc_session, H8 mc_chunk):
 * small dictionary, decoder construction, the acmod_score seam that turns "audio" into a finite symbol
 * alphabet, grammar specifications and the routes by which they reach the decoder, result collection. */
#ifndef DEC_COMMON_H
#define DEC_COMMON_H
#include "refgram.h"
#include <soundswallower/acmod.h>
#include <soundswallower/bin_mdef.h>
#include <soundswallower/config_defs.h>
#include <soundswallower/decoder.h>
#include <soundswallower/dict.h>
#include <soundswallower/err.h>
#include <soundswallower/fsg_model.h>
#include <soundswallower/fsg_search.h>
#include <soundswallower/s3file.h>
#include <soundswallower/search_module.h>

#ifndef MODELDIR
#define MODELDIR "/repo/model/en-us"
#endif

/* ---------- dictionary ---------- */
static const char *DICT_TEXT = "a AH\n"
                               "a(2) EY\n"
                               "i AY\n"
                               "oh OW\n"
                               "go G OW\n"
                               "go(2) G AH\n"
                               "no N OW\n"
                               "at AE T\n"
                               "goat G OW T\n"
                               "ago AH G OW\n"
                               "say\"q S EY\n"
                               "back\\slash B AE K\n"
                               "caf\xc3\xa9 K AE F\n"
                               "ctl\x01x T AH\n"
                               /* sixteen phones: a word whose alignment has many entries under one parent */
                               "goatakesabeenaiford G OW AH T AE K S EY B IY N AY F AO R D\n"
                               /* the vocabulary of the real-audio lattice column (with the alternates of the model's dictionary) */
                               "backward B AE K W ER D\neight EY T\nfive F AY V\nfor F AO R\nfor(2) F ER\nfor(3) F R ER\nforward F AO R W ER D\n"
                               "four F AO R\nmeter M IY T ER\nmeters M IY T ER Z\nnine N AY N\none W AH N\nseven S EH V AH N\nsix S IH K S\nten T EH N\n"
                               "the DH AH\nthe(2) DH IY\nthree TH R IY\nto T UW\nto(2) T IH\nto(3) T AH\ntwo T UW\n";
static char DICT_PATH[512];
static int DC_FULLDICT;
static int DC_ADDWORDS; /* --addwords 1: the dictionary is built with decoder_add_word instead of being read from the file: the
                           lazily filled cross-word triphone tables must give the same models */

static void
dc_write_dict(void)
{
    const char *out = getenv("MC_OUT");
    FILE *fp;
    snprintf(DICT_PATH, sizeof DICT_PATH, "%s.%d.dic", out ? out : "/var/tmp/mc_decode", (int)getpid());
    fp = fopen(DICT_PATH, "w");
    if (!fp) {
        perror(DICT_PATH);
        exit(2);
    }
    if (DC_ADDWORDS) {
        /* only the first entry comes from the file; the rest is added at run time (dc_make_decoder) */
        const char *nl = strchr(DICT_TEXT, '\n');
        fwrite(DICT_TEXT, 1, (size_t)(nl - DICT_TEXT) + 1, fp);
    } else
        fputs(DICT_TEXT, fp);
    fclose(fp);
}

/* ---------- the acoustic seam ----------
 * A frame is a symbol; the score of senone s in a frame with symbol sym is
 *   base(sym, ciphone(s)) + jitter(s),  base = 0 matching phone, SILPEN silence-vs-phone, MISPEN otherwise,
 * jitter in [0,15] fixed per senone so that different triphones of one phone score differently. */
#define MAXSYM 12
#define MAXFRAMES 4096
static int DC_NSYM;
static int DC_SYMPHONE[MAXSYM]; /* ciphone id of each symbol, -1 = matches nothing */
static const char *DC_SYMNAME[MAXSYM];
static int16 *DC_SCORES[MAXSYM]; /* [sym][senone] */
static int DC_NSEN;
static unsigned char DC_FRAMESYM[MAXFRAMES];
static int DC_NFRAMESYM; /* frames beyond it repeat the last symbol */
static int DC_INJECT = 1; /* 0 = pass through to the real scorer */
static long DC_SCORE_CALLS;
#define DC_SILPEN 150
#define DC_MISPEN 400

int16 const *__real_acmod_score(acmod_t *acmod, int *inout_frame_idx);
int16 const *
__wrap_acmod_score(acmod_t *acmod, int *inout_frame_idx)
{
    int fr;
    if (!DC_INJECT)
        return __real_acmod_score(acmod, inout_frame_idx);
    if (inout_frame_idx == NULL)
        fr = acmod->output_frame;
    else if (*inout_frame_idx < 0)
        fr = acmod->output_frame + 1 + *inout_frame_idx;
    else
        fr = *inout_frame_idx;
    if (inout_frame_idx)
        *inout_frame_idx = fr;
    acmod->senscr_frame = fr;
    DC_SCORE_CALLS++;
    if (fr < 0)
        fr = 0;
    if (fr >= DC_NFRAMESYM)
        fr = DC_NFRAMESYM - 1;
    return DC_SCORES[DC_FRAMESYM[fr]];
}

static int
dc_jitter(int s)
{
    return (int)(((unsigned)s * 2654435761u) >> 28);
}

static void
dc_init_scores(bin_mdef_t *mdef, const char *const *symphones, int nsym)
{
    int k, s, sil = bin_mdef_silphone(mdef);
    DC_NSEN = bin_mdef_n_sen(mdef);
    DC_NSYM = nsym;
    for (k = 0; k < nsym; k++) {
        DC_SYMNAME[k] = symphones[k];
        DC_SYMPHONE[k] = strcmp(symphones[k], "_") == 0 ? -1 : bin_mdef_ciphone_id(mdef, symphones[k]);
        if (DC_SYMPHONE[k] < 0 && strcmp(symphones[k], "_") != 0) {
            fprintf(stderr, "unknown phone %s\n", symphones[k]);
            exit(2);
        }
        DC_SCORES[k] = malloc(sizeof(int16) * DC_NSEN);
        for (s = 0; s < DC_NSEN; s++) {
            int ci = bin_mdef_sen2cimap(mdef, s), base;
            if (ci == DC_SYMPHONE[k])
                base = 0;
            else if (DC_SYMPHONE[k] == sil || ci == sil)
                base = DC_SILPEN;
            else
                base = DC_MISPEN;
            DC_SCORES[k][s] = (int16)(base + dc_jitter(s));
        }
    }
}

/* ---------- decoder construction ---------- */
typedef struct {
    const char *beam, *pbeam, *wbeam; /* NULL = default */
    int maxhmmpf; /* 0 = default */
    int usefiller, usealt;
    const char *lw, *wip, *pip; /* NULL = default */
    int compallsen;
    int frate; /* 0 = model default (100) */
} dc_conf_t;
static int DC_SHIFT = 160;

static decoder_t *
dc_make_decoder(const dc_conf_t *c)
{
    config_t *cfg = config_init(NULL);
    decoder_t *d;
    config_set_str(cfg, "hmm", MODELDIR);
    if (!DC_FULLDICT)
        config_set_str(cfg, "dict", DICT_PATH); /* else the model's own dictionary (130000 words) */
    config_set_str(cfg, "loglevel", "FATAL");
    if (c->beam)
        config_set_str(cfg, "beam", c->beam);
    if (c->pbeam)
        config_set_str(cfg, "pbeam", c->pbeam);
    if (c->wbeam)
        config_set_str(cfg, "wbeam", c->wbeam);
    if (c->maxhmmpf)
        config_set_int(cfg, "maxhmmpf", c->maxhmmpf);
    config_set_bool(cfg, "fsgusefiller", c->usefiller);
    config_set_bool(cfg, "fsgusealtpron", c->usealt);
    if (c->lw)
        config_set_str(cfg, "lw", c->lw);
    if (c->wip)
        config_set_str(cfg, "wip", c->wip);
    if (c->pip)
        config_set_str(cfg, "pip", c->pip);
    config_set_bool(cfg, "compallsen", c->compallsen);
    if (c->frate) {
        config_set_int(cfg, "frate", c->frate);
        DC_SHIFT = 16000 / c->frate;
    }
    d = decoder_init(cfg);
    if (!d) {
        fprintf(stderr, "decoder_init failed\n");
        exit(2);
    }
    if (DC_ADDWORDS) {
        const char *p = strchr(DICT_TEXT, '\n');
        while (p && p[1]) {
            char line[128], *sp;
            const char *e = strchr(p + 1, '\n');
            size_t l = e ? (size_t)(e - p - 1) : strlen(p + 1);
            if (l >= sizeof line)
                l = sizeof line - 1;
            memcpy(line, p + 1, l);
            line[l] = 0;
            sp = strchr(line, ' ');
            if (sp) {
                *sp = 0;
                if (decoder_add_word(d, line, sp + 1, !(e && e[1])) < 0) {
                    fprintf(stderr, "decoder_add_word(%s) failed\n", line);
                    exit(2);
                }
            }
            p = e;
        }
    }
    return d;
}

/* ---------- grammar specifications ---------- */
#define GS_MAXA 24
#define GS_MAXW 24
typedef struct {
    int n, start, final, narcs;
    int from[GS_MAXA], to[GS_MAXA], label[GS_MAXA]; /* label: -1 eps, else index into words[] */
    double prob[GS_MAXA];
    const char *words[GS_MAXW];
    int nwords;
} gspec_t;

static void
gs_desc(const gspec_t *g, char *buf, size_t n)
{
    size_t o = snprintf(buf, n, "n=%d s=%d f=%d arcs=", g->n, g->start, g->final);
    int i;
    for (i = 0; i < g->narcs && o + 40 < n; i++)
        o += snprintf(buf + o, n - o, "%s%d>%d:%s:%g", i ? "," : "", g->from[i], g->to[i], g->label[i] < 0 ? "eps" : g->words[g->label[i]],
                      g->prob[i]);
}

/* parse "n=2 s=0 f=1 arcs=0>1:go:1,1>1:eps:0.5"; word strings are interned into g->words */
static int
gs_parse(const char *c, gspec_t *g, char *wordbuf, size_t wordbufn)
{
    const char *p;
    size_t wo = 0;
    memset(g, 0, sizeof *g);
    if (sscanf(c, "n=%d s=%d f=%d", &g->n, &g->start, &g->final) != 3)
        return -1;
    p = strstr(c, "arcs=");
    if (!p)
        return -1;
    p += 5;
    while (*p && *p != ' ') {
        char lab[64];
        double pr;
        int f, t, k;
        if (sscanf(p, "%d>%d:%63[^:]:%lf", &f, &t, lab, &pr) != 4 || g->narcs == GS_MAXA)
            return -1;
        g->from[g->narcs] = f;
        g->to[g->narcs] = t;
        g->prob[g->narcs] = pr;
        if (strcmp(lab, "eps") == 0)
            g->label[g->narcs] = -1;
        else {
            for (k = 0; k < g->nwords; k++)
                if (strcmp(g->words[k], lab) == 0)
                    break;
            if (k == g->nwords) {
                if (wo + strlen(lab) + 1 > wordbufn || g->nwords == GS_MAXW)
                    return -1;
                strcpy(wordbuf + wo, lab);
                g->words[g->nwords++] = wordbuf + wo;
                wo += strlen(lab) + 1;
            }
            g->label[g->narcs] = k;
        }
        g->narcs++;
        while (*p && *p != ',' && *p != ' ')
            p++;
        if (*p == ',')
            p++;
    }
    return 0;
}

/* reference grammar over word labels (indices into g->words), log-probabilities irrelevant for membership */
static void
gs_to_ref(const gspec_t *g, rg_gram *r)
{
    int i;
    r->n = g->n;
    r->start = g->start;
    r->final = g->final;
    r->narcs = g->narcs;
    for (i = 0; i < g->narcs; i++) {
        r->arcs[i].from = g->from[i];
        r->arcs[i].to = g->to[i];
        r->arcs[i].label = g->label[i];
        r->arcs[i].logp = 0;
    }
}

enum { ROUTE_API, ROUTE_FSGTEXT, ROUTE_JSGF, ROUTE_ALIGN, NROUTES };
static const char *const ROUTE_NAME[NROUTES] = { "api", "fsgtext", "jsgf", "aligntext" };

/* is the grammar a linear chain 0 -w1-> 1 -w2-> ... -> n-1 (what alignment text can express)? */
static int
gs_is_chain(const gspec_t *g, char *text, size_t n)
{
    int i;
    size_t o = 0;
    if (g->narcs != g->n - 1 || g->start != 0 || g->final != g->n - 1 || g->n < 2)
        return 0;
    text[0] = 0;
    for (i = 0; i < g->narcs; i++) {
        if (g->from[i] != i || g->to[i] != i + 1 || g->label[i] < 0 || g->prob[i] != 1.0)
            return 0;
        o += snprintf(text + o, n - o, "%s%s", i ? " " : "", g->words[g->label[i]]);
    }
    return 1;
}

/* returns 0 on success, -1 if the decoder refused the grammar */
static int
dc_set_grammar(decoder_t *d, const gspec_t *g, int route)
{
    float lw = (float)config_float(decoder_config(d), "lw");
    int i;
    if (route == ROUTE_API) {
        fsg_model_t *fsg = fsg_model_init("g", decoder_logmath(d), lw, g->n);
        glist_t nulls;
        fsg->start_state = g->start;
        fsg->final_state = g->final;
        for (i = 0; i < g->narcs; i++) {
            int lp = (int32)(logmath_log(decoder_logmath(d), g->prob[i]) * lw);
            if (g->label[i] < 0)
                fsg_model_null_trans_add(fsg, g->from[i], g->to[i], lp);
            else
                fsg_model_trans_add(fsg, g->from[i], g->to[i], lp, fsg_model_word_add(fsg, g->words[g->label[i]]));
        }
        nulls = fsg_model_null_trans_closure(fsg, NULL);
        glist_free(nulls);
        return decoder_set_fsg(d, fsg); /* consumes fsg also on failure */
    } else if (route == ROUTE_FSGTEXT) {
        char *buf = NULL, *exact;
        size_t len = 0;
        FILE *fp = open_memstream(&buf, &len);
        s3file_t *s3;
        fsg_model_t *fsg;
        fprintf(fp, "FSG_BEGIN g\nNUM_STATES %d\nSTART_STATE %d\nFINAL_STATE %d\n", g->n, g->start, g->final);
        for (i = 0; i < g->narcs; i++)
            fprintf(fp, "TRANSITION %d %d %.9g %s\n", g->from[i], g->to[i], g->prob[i], g->label[i] < 0 ? "" : g->words[g->label[i]]);
        fprintf(fp, "FSG_END\n");
        fclose(fp);
        exact = malloc(len);
        memcpy(exact, buf, len);
        free(buf);
        s3 = s3file_init(exact, len);
        fsg = fsg_model_read_s3file(s3, decoder_logmath(d), lw);
        s3file_free(s3);
        free(exact);
        if (!fsg)
            return -1;
        return decoder_set_fsg(d, fsg);
    } else if (route == ROUTE_JSGF) {
        /* systematic right-linear encoding: state i -> rule <q_i> = w <q_j> | ... [| <NULL> if final] */
        char *buf = NULL;
        size_t len = 0;
        FILE *fp = open_memstream(&buf, &len);
        int s, rc;
        fprintf(fp, "#JSGF V1.0; grammar g; public <top> = <q%d>;\n", g->start);
        for (s = 0; s < g->n; s++) {
            int k = 0;
            fprintf(fp, "<q%d> = ", s);
            for (i = 0; i < g->narcs; i++)
                if (g->from[i] == s) {
                    fprintf(fp, "%s", k++ ? " | " : "");
                    if (g->label[i] < 0)
                        fprintf(fp, "<q%d>", g->to[i]);
                    else
                        fprintf(fp, "%s <q%d>", g->words[g->label[i]], g->to[i]);
                }
            if (s == g->final)
                fprintf(fp, "%s<NULL>", k++ ? " | " : "");
            if (!k)
                fprintf(fp, "<VOID>");
            fprintf(fp, ";\n");
        }
        fclose(fp);
        rc = decoder_set_jsgf_string(d, buf);
        free(buf);
        return rc;
    } else {
        char text[512];
        if (!gs_is_chain(g, text, sizeof text))
            return -1;
        return decoder_set_align_text(d, text);
    }
}

/* ---------- utterances ---------- */
/* samples that yield exactly T frames: T-1 full windows plus the trailing partial one */
static size_t
dc_samples_for_frames(int T)
{
    if (T <= 0)
        return 0;
    if (T == 1)
        return 200;
    return (size_t)410 + (size_t)(T - 2) * DC_SHIFT + 80;
}

/* ---------- results ---------- */
#define MAXSEG 256
typedef struct {
    char word[48];
    int sf, ef, ascr, lscr, prob;
} dc_seg_t;
typedef struct {
    int has_hyp;
    char hyp[1024];
    int score;
    int nseg;
    dc_seg_t seg[MAXSEG];
} dc_result_t;

static void
dc_collect(decoder_t *d, dc_result_t *r)
{
    int32 score = 0;
    const char *h = decoder_hyp(d, &score);
    seg_iter_t *it;
    memset(r, 0, sizeof *r);
    r->has_hyp = h != NULL;
    if (h)
        snprintf(r->hyp, sizeof r->hyp, "%s", h);
    r->score = score;
    for (it = decoder_seg_iter(d); it; it = seg_iter_next(it)) {
        dc_seg_t *s;
        if (r->nseg == MAXSEG) {
            seg_iter_free(it);
            break;
        }
        s = &r->seg[r->nseg++];
        snprintf(s->word, sizeof s->word, "%s", seg_iter_word(it));
        seg_iter_frames(it, &s->sf, &s->ef);
        s->prob = seg_iter_prob(it, &s->ascr, &s->lscr);
    }
}

static void
dc_result_str(const dc_result_t *r, char *buf, size_t n)
{
    size_t o = snprintf(buf, n, "hyp=%s%s%s score=%d segs=", r->has_hyp ? "\"" : "", r->has_hyp ? r->hyp : "NULL", r->has_hyp ? "\"" : "", r->score);
    int i;
    for (i = 0; i < r->nseg && o + 80 < n; i++)
        o += snprintf(buf + o, n - o, "[%s %d-%d a%d l%d]", r->seg[i].word, r->seg[i].sf, r->seg[i].ef, r->seg[i].ascr, r->seg[i].lscr);
}

/* base form of a word string: strip a trailing "(n)" */
static void
dc_base(const char *w, char *out, size_t n)
{
    size_t l = strlen(w);
    snprintf(out, n, "%s", w);
    if (l > 3 && w[l - 1] == ')') {
        char *p = strrchr(out, '(');
        if (p && p != out)
            *p = 0;
    }
}

static int
dc_is_filler_str(const char *w)
{
    return w[0] == '<' || w[0] == '[';
}
#endif
