/* H10 mc_parse -- C10: untrusted grammar, dictionary, configuration and text inputs are handled safely.
 * E-ENUM: (A) every token sequence up to a length bound over a per-format token alphabet, with and without
 * a valid prefix and a final newline; (B) complete single mutations of valid seed files: every truncation,
 * every single-byte replacement from a 12-byte set at every offset, every token deletion, every line
 * duplication; (C) nesting depths.  Buffers handed to s3file_init are exact-size heap blocks WITHOUT a
 * terminating NUL, which is what a memory-mapped file or a JavaScript buffer looks like to the library.
 * Each case: call the entry point, USE the returned object, free it, check the allocator is back where it
 * was.  Cases run in forked batches; exit(), sanitizer reports, assertions and hangs are outcomes.
 *
 * usage: mc_parse --format jsgf|fsg|dict|fdict|json|cfgset|align|addword|cmn --space tokens|mutate|nest [--len L] [--shard i/n] [--case "<hex>"]
 */
#include "../engine/mc.h"
#include <soundswallower/bin_mdef.h>
#include <sys/stat.h>
#include <soundswallower/configuration.h>
#include <soundswallower/decoder.h>
#include <soundswallower/dict.h>
#include <soundswallower/err.h>
#include <soundswallower/fsg_model.h>
#include <soundswallower/jsgf.h>
#include <soundswallower/logmath.h>
#include <soundswallower/s3file.h>

#ifndef MODELDIR
#define MODELDIR "/repo/model/en-us"
#endif
#ifndef DATADIR
#define DATADIR "/repo/tests/data"
#endif

enum { F_JSGF, F_FSG, F_DICT, F_FDICT, F_JSON, F_CFGSET, F_ALIGN, F_ADDWORD, F_CMN, F_FSGDEC, F_JSGFDEC, F_JSGFIMP, NFORMATS };
static const char *const FNAME[NFORMATS] = { "jsgf", "fsg", "dict", "fdict", "json", "cfgset", "align", "addword", "cmn", "fsgdec", "jsgfdec", "jsgfimp" };
static int FORMAT;
static logmath_t *lmath;
static bin_mdef_t *mdef;
static decoder_t *D;
static char LONGTOK[70001];

/* ---------- running one input ---------- */
static char *
exact_copy(const unsigned char *data, size_t len)
{
    char *p = malloc(len ? len : 1);
    memcpy(p, data, len);
    return p;
}

static const char *NOISEDICT = "<s> SIL\n</s> SIL\n<sil> SIL\n[NOISE] +NSN+\n";
static const char *SMALLDICT = "go G OW\nforward F AO R W ER D\n";

/* returns 1 if the library produced an object (non-trivial), 0 if it reported failure */
static int
run_input(const unsigned char *data, size_t len)
{
    int got = 0;
    switch (FORMAT) {
    case F_JSGF: {
        char *s = malloc(len + 1);
        jsgf_t *j;
        memcpy(s, data, len);
        s[len] = 0;
        j = jsgf_parse_string(s, NULL);
        if (j) {
            jsgf_rule_t *r = jsgf_get_public_rule(j);
            jsgf_rule_iter_t *it;
            for (it = jsgf_rule_iter(j); it; it = jsgf_rule_iter_next(it))
                (void)jsgf_rule_name(jsgf_rule_iter_rule(it));
            if (r) {
                /* the null-transition closure is cubic in the number of states: for deeply nested inputs only the
                 * raw FSG is built (the recursion depth of parser, expansion and clean-up is what they probe) */
                fsg_model_t *f = jsgf_build_fsg_raw(j, r, lmath, 6.5f);
                if (f && fsg_model_n_state(f) <= 300) {
                    fsg_model_free(f);
                    f = jsgf_build_fsg(j, r, lmath, 6.5f);
                }
                if (f) {
                    int i;
                    char *buf = NULL;
                    size_t bl = 0;
                    FILE *fp = open_memstream(&buf, &bl);
                    for (i = 0; i < fsg_model_n_state(f); i++) {
                        fsg_arciter_t *a;
                        for (a = fsg_model_arcs(f, i); a; a = fsg_arciter_next(a))
                            (void)fsg_arciter_get(a);
                    }
                    fsg_model_write(f, fp);
                    fclose(fp);
                    free(buf);
                    fsg_model_free(f);
                    got = 1;
                }
            }
            jsgf_grammar_free(j);
        }
        free(s);
        break;
    }
    case F_JSGFIMP: {
        /* grammar FILES that import each other: the input is <main.gram> 0x1e <sub.gram> [0x1e <other.gram>]; the files are written to a
         * scratch directory of this process and main.gram is read with jsgf_parse_file (imports are resolved next to the importing file) */
        static char dir[600];
        static const char *const names[3] = { "main.gram", "sub.gram", "other.gram" };
        char path[700];
        size_t off = 0;
        int k;
        jsgf_t *j;
        snprintf(dir, sizeof dir, "%s.imp.%d", getenv("MC_OUT") ? getenv("MC_OUT") : "/var/tmp/mc_parse", (int)getpid());
        mkdir(dir, 0700);
        for (k = 0; k < 3; k++) {
            size_t e = off;
            FILE *fp;
            snprintf(path, sizeof path, "%s/%s", dir, names[k]);
            unlink(path);
            if (off > len)
                continue; /* no such file */
            while (e < len && data[e] != 0x1e)
                e++;
            fp = fopen(path, "wb");
            fwrite(data + off, 1, e - off, fp);
            fclose(fp);
            off = e + 1;
        }
        snprintf(path, sizeof path, "%s/main.gram", dir);
        j = jsgf_parse_file(path, NULL);
        if (j) {
            jsgf_rule_t *r = jsgf_get_public_rule(j);
            jsgf_rule_iter_t *it;
            for (it = jsgf_rule_iter(j); it; it = jsgf_rule_iter_next(it))
                (void)jsgf_rule_name(jsgf_rule_iter_rule(it));
            if (r) {
                fsg_model_t *f = jsgf_build_fsg(j, r, lmath, 6.5f);
                if (f) {
                    int i;
                    for (i = 0; i < fsg_model_n_state(f); i++) {
                        fsg_arciter_t *a;
                        for (a = fsg_model_arcs(f, i); a; a = fsg_arciter_next(a))
                            (void)fsg_model_word_str(f, fsg_link_wid(fsg_arciter_get(a)));
                    }
                    fsg_model_free(f);
                    got = 1;
                }
            }
            jsgf_grammar_free(j);
        }
        for (k = 0; k < 3; k++) {
            snprintf(path, sizeof path, "%s/%s", dir, names[k]);
            unlink(path);
        }
        rmdir(dir);
        break;
    }
    case F_FSG: {
        char *blk = exact_copy(data, len);
        s3file_t *s3 = s3file_init(blk, len);
        fsg_model_t *f = fsg_model_read_s3file(s3, lmath, 6.5f);
        if (f) {
            int i;
            char *buf = NULL;
            size_t bl = 0;
            FILE *fp = open_memstream(&buf, &bl);
            for (i = 0; i < fsg_model_n_state(f); i++) {
                fsg_arciter_t *a;
                for (a = fsg_model_arcs(f, i); a; a = fsg_arciter_next(a))
                    (void)fsg_model_word_str(f, fsg_link_wid(fsg_arciter_get(a)));
            }
            fsg_model_add_silence(f, "<sil>", -1, 0.005f);
            fsg_model_write(f, fp);
            fclose(fp);
            free(buf);
            fsg_model_free(f);
            got = 1;
        }
        s3file_free(s3);
        free(blk);
        break;
    }
    case F_DICT:
    case F_FDICT: {
        char *blk = exact_copy(data, len);
        s3file_t *s3 = s3file_init(blk, len), *other = s3file_init(FORMAT == F_DICT ? NOISEDICT : SMALLDICT, strlen(FORMAT == F_DICT ? NOISEDICT : SMALLDICT));
        dict_t *d = FORMAT == F_DICT ? dict_init_s3file(NULL, mdef, s3, other) : dict_init_s3file(NULL, mdef, other, s3);
        if (d) {
            int w;
            for (w = 0; w < dict_size(d); w++) {
                const char *ws = dict_wordstr(d, w);
                if (ws) {
                    int p;
                    (void)dict_wordid(d, ws);
                    (void)dict_basestr(d, w);
                    for (p = 0; p < dict_pronlen(d, w); p++)
                        (void)dict_ciphone_str(d, w, p);
                    (void)dict_filler_word(d, w);
                }
            }
            dict_free(d);
            got = 1;
        }
        s3file_free(s3);
        s3file_free(other);
        free(blk);
        break;
    }
    case F_JSON: {
        char *s = malloc(len + 1);
        config_t *c;
        memcpy(s, data, len);
        s[len] = 0;
        c = config_parse_json(NULL, s);
        if (c) {
            const char *ser = config_serialize_json(c);
            if (ser) {
                config_t *c2 = config_parse_json(NULL, ser);
                if (c2)
                    config_free(c2);
                else
                    mc_viol("C10/serialised-configuration-not-parseable", mc_current, "config_serialize_json output is rejected by config_parse_json");
            }
            config_free(c);
            got = 1;
        }
        free(s);
        break;
    }
    case F_CFGSET: {
        static const char *const keys[] = { "frate", "beam", "compallsen", "hmm", "cmninit", "loglevel", "nosuchkey" };
        char *s = malloc(len + 1);
        unsigned k;
        config_t *c = config_init(NULL);
        memcpy(s, data, len);
        s[len] = 0;
        for (k = 0; k < sizeof keys / sizeof *keys; k++)
            if (config_set_str(c, keys[k], s))
                got = 1;
        (void)config_int(c, "frate");
        (void)config_float(c, "beam");
        (void)config_bool(c, "compallsen");
        (void)config_serialize_json(c);
        config_free(c);
        free(s);
        break;
    }
    case F_ALIGN: {
        char *s = malloc(len + 1);
        memcpy(s, data, len);
        s[len] = 0;
        if (decoder_set_align_text(D, s) == 0) {
            got = 1;
            if (decoder_start_utt(D) == 0) {
                static int16 z[1600];
                decoder_process_int16(D, z, 1600, 0, 0);
                decoder_end_utt(D);
                (void)decoder_hyp(D, NULL);
            }
        }
        free(s);
        break;
    }
    case F_ADDWORD: {
        /* the input is split at the first newline into word and pronunciation */
        char *s = malloc(len + 1), *nl;
        memcpy(s, data, len);
        s[len] = 0;
        nl = strchr(s, '\n');
        if (nl) {
            *nl = 0;
            if (decoder_add_word(D, s, nl + 1, 1) >= 0) {
                char *p = decoder_lookup_word(D, s);
                ckd_free(p);
                got = 1;
            }
        } else if (decoder_add_word(D, s, "G OW", 0) >= 0)
            got = 1;
        free(s);
        break;
    }
    case F_FSGDEC: {
        /* an FSG file handed to the decoder (unknown words, unusable grammars) */
        char *blk = exact_copy(data, len);
        s3file_t *s3 = s3file_init(blk, len);
        if (decoder_init_grammar_s3file(D, s3, NULL) == 0)
            got = 1;
        s3file_free(s3);
        free(blk);
        break;
    }
    case F_JSGFDEC: {
        char *s = malloc(len + 1);
        memcpy(s, data, len);
        s[len] = 0;
        if (decoder_set_jsgf_string(D, s) == 0)
            got = 1;
        free(s);
        break;
    }
    case F_CMN: {
        char *s = malloc(len + 1);
        memcpy(s, data, len);
        s[len] = 0;
        if (decoder_set_cmn(D, s) == 0)
            got = 1;
        (void)decoder_get_cmn(D, 0);
        free(s);
        break;
    }
    }
    return got;
}

/* ---------- case descriptor: hex of the input (long runs abbreviated) ---------- */
static void
describe(const unsigned char *data, size_t len, char *buf, size_t n)
{
    size_t o = snprintf(buf, n, "format=%s len=%zu hex=", FNAME[FORMAT], len), i = 0;
    while (i < len && o + 24 < n) {
        size_t run = 1;
        while (i + run < len && data[i + run] == data[i])
            run++;
        if (run > 8) {
            o += snprintf(buf + o, n - o, "%02x*%zu.", data[i], run);
            i += run;
        } else {
            o += snprintf(buf + o, n - o, "%02x", data[i]);
            i++;
        }
    }
    if (i < len)
        snprintf(buf + o, n - o, "...");
}

static unsigned char *
undescribe(const char *desc, size_t *len)
{
    const char *h = strstr(desc, "hex=");
    unsigned char *out;
    size_t cap = 1 << 20, n = 0;
    if (!h)
        return NULL;
    h += 4;
    out = malloc(cap);
    while (*h && *h != '.' + 100) {
        unsigned v;
        size_t run = 1, k;
        if (strncmp(h, "...", 3) == 0)
            break;
        if (sscanf(h, "%2x", &v) != 1)
            break;
        h += 2;
        if (*h == '*') {
            run = strtoul(h + 1, (char **)&h, 10);
            if (*h == '.')
                h++;
        }
        for (k = 0; k < run && n < cap; k++)
            out[n++] = (unsigned char)v;
    }
    *len = n;
    return out;
}

static size_t ALLOC_BEFORE;
static int
run_case(const unsigned char *data, size_t len, long long idx)
{
    static char cd[8192];
    int got;
    size_t a0;
    long long v0 = mc_nviol;
    describe(data, len, cd, sizeof cd);
    mc_case_begin(idx, cd);
    a0 = MC_ALLOCATED();
    got = run_input(data, len);
    if ((FORMAT < F_ALIGN || FORMAT == F_JSGFIMP) && MC_ALLOCATED() != a0) {
        mc_viol("C10/leak", cd, "%ld bytes still allocated after the object (or the failure) was cleaned up", (long)(MC_ALLOCATED() - a0));
        return -1;
    }
    (void)ALLOC_BEFORE;
    return mc_nviol != v0 ? -1 : got;
}

/* ---------- space A: token sequences ---------- */
static const char *TOK[40];
static int NTOK;
static const char *PREFIX[3];
static int NPREFIX;
static int MAXLEN = 3;

static void
setup_tokens(void)
{
    static const char *const jsgf[] = { "public", "<s>", "<x>", "=", "a", "b", "|", "(", ")", "[", "]", "*", "+", ";", "/0.5/", "/2/", "/1e40/", "{t}", "<NULL>", "<VOID>",
                                        "\"q", "/*", "*/", "//", "\n", "\xff", LONGTOK, "import", "<g.x>", "grammar", "#JSGF" };
    static const char *const fsg[] = { "FSG_BEGIN", "g", "\n", "NUM_STATES", "N", "2", "0", "1", "-1", "2147483648", "1e40", "0.5", "START_STATE", "FINAL_STATE",
                                       "TRANSITION", "T", "a", "FSG_END", "#", LONGTOK, "\xff", "S", "F" };
    static const char *const dict[] = { "go", "G", "OW", "\n", "go(2)", "x(2)", "(2)", "()", ")", "ZZ", "SIL", "<sil>", "<s>", "##", ";;", LONGTOK, "\xff", "\t", "+NSN+",
                                        "a(b)(2)", "\r" };
    static const char *const json[] = { "{", "}", "\"", "frate", ":", ",", "100", "-1", "1e400", "true", "null", "[", "]", "\\", "\\u00", "hmm", "beam", LONGTOK, "\xff", "\n",
                                        "nosuchkey", "0.5" };
    static const char *const val[] = { "", "0", "1", "-1", "2147483648", "99999999999999999999", "1e40", "1e-400", "nan", "inf", "yes", "no", "true", "T", "0x10", "abc", " ",
                                       ",", "1,2,3", LONGTOK, "\xff", "-", ".", "e", "\n" };
    static const char *const text[] = { "go", "forward", "zzzz", " ", "\t", "\n", "go(2)", "<sil>", "", LONGTOK, "\xff", "(", ")", "<s>", "G", "OW", "ZZ", "+NSN+" };
    const char *const *src;
    int n, i;
    switch (FORMAT) {
    case F_JSGFDEC: {
        static const char *const jd[] = { "go", "forward", "zzzz", "|", "(", ")", "[", "]", "*", ";", "<x>", "<NULL>", "<VOID>", "/2/", "go(2)", "\xff" };
        src = jd, n = sizeof jd / sizeof *jd;
        PREFIX[0] = "#JSGF V1.0; grammar g; public <s> = ";
        PREFIX[1] = "#JSGF V1.0; grammar g; <x> = forward; public <s> = go ";
        NPREFIX = 2;
        break;
    }
    case F_FSGDEC: {
        static const char *const fd[] = { "T", "0", "1", "0.5", "go", "forward", "zzzz", "\n", "FSG_END", "go(2)", "<sil>", "2", "\xff" };
        src = fd, n = sizeof fd / sizeof *fd;
        PREFIX[0] = "FSG_BEGIN g\nNUM_STATES 2\nSTART_STATE 0\nFINAL_STATE 1\n";
        PREFIX[1] = "FSG_BEGIN g\nN 2\nS 0\nF 1\nT 0 1 0.5 go\n";
        NPREFIX = 2;
        break;
    }
    case F_JSGFIMP: {
        /* the token sequence continues sub.gram (and may open other.gram with the 0x1e separator) */
        static const char *const ji[] = { "import <main.s>;", "import <sub.x>;", "import <sub.*>;", "import <other.y>;", "import <nosuch.z>;", "import <x>;", "public <x> = a;",
                                          "public <x> = a <s>;", "<x> = b;", "public <y> = <x> c;", "public <s> = d;", "(", ";", "\x1e", "#JSGF V1.0;", "grammar sub;", "grammar other;",
                                          "grammar main;", "\xff" };
        src = ji, n = sizeof ji / sizeof *ji;
        PREFIX[0] = "#JSGF V1.0; grammar main; import <sub.x>; public <s> = go <x>;\x1e#JSGF V1.0; grammar sub; ";
        PREFIX[1] = "#JSGF V1.0; grammar main; import <sub.*>; import <other.y>; public <s> = go <sub.x> | <y>;\x1e#JSGF V1.0; grammar sub; ";
        PREFIX[2] = "#JSGF V1.0; grammar main; import <sub.x>; import <sub.x>; public <s> = <x>;\x1e";
        NPREFIX = 3;
        break;
    }
    case F_JSGF:
        src = jsgf, n = sizeof jsgf / sizeof *jsgf;
        PREFIX[0] = "";
        PREFIX[1] = "#JSGF V1.0; grammar g; public <s> = ";
        PREFIX[2] = "#JSGF V1.0; grammar g; <x> = a; public <s> = ";
        NPREFIX = 3;
        break;
    case F_FSG:
        src = fsg, n = sizeof fsg / sizeof *fsg;
        PREFIX[0] = "";
        PREFIX[1] = "FSG_BEGIN g\nNUM_STATES 2\nSTART_STATE 0\nFINAL_STATE 1\n";
        PREFIX[2] = "FSG_BEGIN g\nN 2\nS 0\nF 1\nT 0 1 0.5 a\n";
        NPREFIX = 3;
        break;
    case F_DICT:
    case F_FDICT:
        src = dict, n = sizeof dict / sizeof *dict;
        PREFIX[0] = "";
        PREFIX[1] = "go G OW\n";
        NPREFIX = 2;
        break;
    case F_JSON:
        src = json, n = sizeof json / sizeof *json;
        PREFIX[0] = "";
        PREFIX[1] = "{\"frate\":";
        NPREFIX = 2;
        break;
    case F_CFGSET:
    case F_CMN:
        src = val, n = sizeof val / sizeof *val;
        PREFIX[0] = "";
        NPREFIX = 1;
        break;
    default:
        src = text, n = sizeof text / sizeof *text;
        PREFIX[0] = "";
        PREFIX[1] = "go\n";
        NPREFIX = FORMAT == F_ADDWORD ? 2 : 1;
    }
    for (i = 0; i < n; i++)
        TOK[i] = src[i];
    NTOK = n;
}

static long long
tokens_total(void)
{
    long long c = 0, k = 1;
    int l;
    for (l = 0; l <= MAXLEN; l++) {
        c += k;
        k *= NTOK;
    }
    return c * NPREFIX * 3; /* separators: space-joined, newline-terminated, or concatenated */
}

static unsigned char *BUF;
static size_t
tokens_build(long long idx)
{
    int variant = (int)(idx % 3), pfx, l, toks[8], i;
    long long k = 1;
    size_t o = 0;
    idx /= 3;
    pfx = (int)(idx % NPREFIX);
    idx /= NPREFIX;
    for (l = 0; l <= MAXLEN; l++) {
        if (idx < k)
            break;
        idx -= k;
        k *= NTOK;
    }
    for (i = l - 1; i >= 0; i--) {
        toks[i] = (int)(idx % NTOK);
        idx /= NTOK;
    }
    o = strlen(PREFIX[pfx]);
    memcpy(BUF, PREFIX[pfx], o);
    for (i = 0; i < l; i++) {
        size_t tl = strlen(TOK[toks[i]]);
        if (i && variant != 2)
            BUF[o++] = ' ';
        memcpy(BUF + o, TOK[toks[i]], tl);
        o += tl;
    }
    if (variant == 1)
        BUF[o++] = '\n';
    return o;
}

/* ---------- space B: mutations of valid seeds ---------- */
static unsigned char *SEED[8];
static size_t SEEDLEN[8];
static int NSEED;
static const unsigned char REPL[12] = { 0, '\n', ' ', '(', ')', '<', '"', '\\', '9', '-', 0xff, ';' };

static void
add_seed_file(const char *path, size_t maxlen)
{
    FILE *fp = fopen(path, "rb");
    if (!fp)
        return;
    SEED[NSEED] = malloc(maxlen + 1);
    SEEDLEN[NSEED] = fread(SEED[NSEED], 1, maxlen, fp);
    fclose(fp);
    NSEED++;
}
static void
add_seed_text(const char *t)
{
    SEEDLEN[NSEED] = strlen(t);
    SEED[NSEED] = (unsigned char *)strdup(t);
    NSEED++;
}

static void
setup_seeds(void)
{
    switch (FORMAT) {
    case F_JSGF:
        add_seed_file(DATADIR "/goforward.gram", 4096);
        add_seed_file(DATADIR "/pizza.gram", 4096);
        add_seed_text("#JSGF V1.0 UTF-8 en; grammar t; import <x.y>; public <s> = /2/ a {tag} | /0.5/ [ b ]* ( <t> | <NULL> )+ \"q r\"; <t> = c <t> | d; // end\n");
        break;
    case F_JSGFIMP:
        add_seed_text("#JSGF V1.0; grammar main; import <sub.x>; import <other.*>; public <s> = go <x> | <other.y>;\x1e#JSGF V1.0; grammar sub; import <other.y>; public <x> = a <y> | b;"
                      "\x1e#JSGF V1.0; grammar other; public <y> = c [ d ];");
        add_seed_text("#JSGF V1.0; grammar main; import <sub.x>; public <s> = go <x>;\x1e#JSGF V1.0; grammar sub; import <main.s>; public <x> = a | b <s>;");
        break;
    case F_FSG:
        add_seed_file(DATADIR "/goforward.fsg", 4096);
        add_seed_file(DATADIR "/goforward2.fsg", 4096);
        break;
    case F_DICT:
        add_seed_file(DATADIR "/turtle.dic", 1500);
        add_seed_text("go G OW\ngo(2) G AH\nforward F AO R W ER D\n## comment\n;; other\n");
        break;
    case F_FDICT:
        add_seed_file(MODELDIR "/noisedict.txt", 4096);
        break;
    case F_JSON:
        add_seed_file(MODELDIR "/feat_params.json", 4096);
        add_seed_text("{\"hmm\": \"/x/y\", \"frate\": 100, \"beam\": 1e-48, \"compallsen\": true, \"cmninit\": \"41,-5,0\", loglevel: \"FATAL\"}");
        break;
    case F_CFGSET:
        add_seed_text("1e-48");
        add_seed_text("41.00,-5.29,-0.12,5.09,2.48,-4.07,-1.37,-1.78,-5.08,-2.05,-6.45,-1.42,1.17");
        break;
    case F_ALIGN:
        add_seed_text("go forward go(2) forward");
        break;
    case F_ADDWORD:
        add_seed_text("zed\nZ EH D");
        add_seed_text("go(3)\nG OW");
        break;
    case F_CMN:
        add_seed_text("41.00,-5.29,-0.12,5.09,2.48,-4.07,-1.37,-1.78,-5.08,-2.05,-6.45,-1.42,1.17");
        break;
    case F_FSGDEC:
        add_seed_text("FSG_BEGIN g\nNUM_STATES 3\nSTART_STATE 0\nFINAL_STATE 2\nTRANSITION 0 1 0.5 go\nTRANSITION 1 2 1.0 forward\nTRANSITION 0 2 0.5\nFSG_END\n");
        add_seed_text("FSG_BEGIN many\nNUM_STATES 2\nSTART_STATE 0\nFINAL_STATE 1\nTRANSITION 0 1 0.1 one\nTRANSITION 0 1 0.1 two\nTRANSITION 0 1 0.1 three\n"
                      "TRANSITION 0 1 0.1 four\nTRANSITION 0 1 0.1 five\nTRANSITION 0 1 0.1 six\nTRANSITION 0 1 0.1 seven\nTRANSITION 0 1 0.1 eight\n"
                      "TRANSITION 0 1 0.05 nine\nTRANSITION 0 1 0.05 ten\nTRANSITION 0 1 0.05 eleven\nTRANSITION 0 1 0.05 twelve\nTRANSITION 1 0 0.5\nFSG_END\n");
        break;
    case F_JSGFDEC:
        add_seed_text("#JSGF V1.0; grammar g; public <s> = go [ forward ] | <x>+; <x> = forward go;");
        add_seed_text("#JSGF V1.0; grammar many; public <s> = ( one | two | three | four | five | six | seven | eight | nine | ten | eleven | twelve )+;");
        break;
    }
}

/* mutation index -> input; kinds: truncation (len+1), replacement (12*len), token deletion, line duplication */
static long long MUT_BASE[8][5];
static long long
mutate_total(void)
{
    long long c = 0;
    int s;
    for (s = 0; s < NSEED; s++) {
        size_t i, ntokens = 0, nlines = 0;
        for (i = 0; i < SEEDLEN[s]; i++) {
            if (!isspace(SEED[s][i]) && (i == 0 || isspace(SEED[s][i - 1])))
                ntokens++;
            if (SEED[s][i] == '\n')
                nlines++;
        }
        MUT_BASE[s][0] = c;
        c += SEEDLEN[s] + 1;
        MUT_BASE[s][1] = c;
        c += 12 * (long long)SEEDLEN[s];
        MUT_BASE[s][2] = c;
        c += ntokens;
        MUT_BASE[s][3] = c;
        c += nlines + 1;
        MUT_BASE[s][4] = c;
    }
    return c;
}

static size_t
mutate_build(long long idx)
{
    int s;
    for (s = NSEED - 1; s > 0; s--)
        if (idx >= MUT_BASE[s][0])
            break;
    {
        const unsigned char *sd = SEED[s];
        size_t L = SEEDLEN[s], i, o = 0;
        if (idx < MUT_BASE[s][1]) {
            size_t t = (size_t)(idx - MUT_BASE[s][0]);
            memcpy(BUF, sd, t);
            return t;
        }
        if (idx < MUT_BASE[s][2]) {
            long long k = idx - MUT_BASE[s][1];
            memcpy(BUF, sd, L);
            BUF[k / 12] = REPL[k % 12];
            return L;
        }
        if (idx < MUT_BASE[s][3]) {
            long long k = idx - MUT_BASE[s][2], t = -1;
            for (i = 0; i < L; i++) {
                int start = !isspace(sd[i]) && (i == 0 || isspace(sd[i - 1]));
                if (start)
                    t++;
                if (t == k && !isspace(sd[i]))
                    continue; /* drop this token's bytes */
                BUF[o++] = sd[i];
            }
            return o;
        }
        {
            long long k = idx - MUT_BASE[s][3], line = 0;
            size_t ls = 0;
            for (i = 0; i <= L; i++) {
                if (i == L || sd[i] == '\n') {
                    size_t le = i < L ? i + 1 : L;
                    memcpy(BUF + o, sd + ls, le - ls);
                    o += le - ls;
                    if (line == k) {
                        memcpy(BUF + o, sd + ls, le - ls);
                        o += le - ls;
                    }
                    line++;
                    ls = le;
                }
            }
            return o;
        }
    }
}

/* ---------- space C: nesting ---------- */
static const int DEPTHS[] = { 1, 2, 3, 5, 10, 50, 100, 200, 500, 1000, 2000, 5000 };
#define NDEPTH (int)(sizeof DEPTHS / sizeof *DEPTHS)
static long long
nest_total(void)
{
    return FORMAT == F_JSGF ? NDEPTH * 5 : FORMAT == F_JSON ? NDEPTH * 2 : 0;
}
static size_t
nest_build(long long idx)
{
    int d = DEPTHS[idx % NDEPTH], kind = (int)(idx / NDEPTH), i;
    size_t o = 0;
    if (FORMAT == F_JSGF) {
        o += sprintf((char *)BUF + o, "#JSGF V1.0; grammar g; ");
        if (kind < 3) {
            const char *op = kind == 0 ? "(" : kind == 1 ? "[" : "(", *cl = kind == 0 ? ")" : kind == 1 ? "]" : ")*";
            o += sprintf((char *)BUF + o, "public <s> = ");
            for (i = 0; i < d; i++)
                o += sprintf((char *)BUF + o, "%s ", op);
            o += sprintf((char *)BUF + o, "a ");
            for (i = 0; i < d; i++)
                o += sprintf((char *)BUF + o, "%s ", cl);
            o += sprintf((char *)BUF + o, ";");
        } else if (kind == 3) {
            /* chain of rule references */
            o += sprintf((char *)BUF + o, "public <s> = <r0>; ");
            for (i = 0; i < d; i++)
                o += sprintf((char *)BUF + o, "<r%d> = a <r%d>; ", i, i + 1);
            o += sprintf((char *)BUF + o, "<r%d> = b;", d);
        } else {
            /* d alternatives */
            o += sprintf((char *)BUF + o, "public <s> = a");
            for (i = 0; i < d; i++)
                o += sprintf((char *)BUF + o, " | w%d", i);
            o += sprintf((char *)BUF + o, ";");
        }
    } else {
        for (i = 0; i < d; i++)
            BUF[o++] = kind ? '[' : '{';
        o += sprintf((char *)BUF + o, "\"frate\"");
    }
    return o;
}

static int SPACE; /* 0 tokens 1 mutate 2 nest */
static int
run_index(long long idx, void *arg)
{
    size_t len = SPACE == 0 ? tokens_build(idx) : SPACE == 1 ? mutate_build(idx) : nest_build(idx);
    (void)arg;
    return run_case(BUF, len, idx);
}

int
main(int argc, char **argv)
{
    const char *cas = mc_arg(argc, argv, "--case", NULL), *fmt = mc_arg(argc, argv, "--format", "jsgf"), *space = mc_arg(argc, argv, "--space", "tokens");
    int shard = 0, nshard = 1, complete, i;
    long long total;
    mc_init();
    mc_install_crash_hooks();
    err_set_loglevel(ERR_FATAL);
    sscanf(mc_arg(argc, argv, "--shard", "0/1"), "%d/%d", &shard, &nshard);
    MAXLEN = atoi(mc_arg(argc, argv, "--len", "3"));
    for (FORMAT = 0; FORMAT < NFORMATS; FORMAT++)
        if (strcmp(FNAME[FORMAT], fmt) == 0)
            break;
    if (FORMAT == NFORMATS)
        return 2;
    SPACE = strcmp(space, "mutate") == 0 ? 1 : strcmp(space, "nest") == 0 ? 2 : 0;
    memset(LONGTOK, 'a', 70000);
    LONGTOK[70000] = 0;
    BUF = malloc(1 << 20);
    lmath = logmath_init(1.0001, 0, 1);
    {
        s3file_t *s = s3file_map_file(MODELDIR "/mdef");
        mdef = s ? bin_mdef_read_s3file(s, 128) : NULL;
        s3file_free(s);
        if (!mdef) {
            fprintf(stderr, "cannot load mdef\n");
            return 2;
        }
    }
    if (FORMAT >= F_ALIGN && FORMAT != F_JSGFIMP) {
        char dp[512];
        config_t *cfg = config_init(NULL);
        FILE *fp;
        snprintf(dp, sizeof dp, "%s.%d.dic", getenv("MC_OUT") ? getenv("MC_OUT") : "/var/tmp/mc_parse", (int)getpid());
        fp = fopen(dp, "w");
        /* a dozen words with alternate pronunciations: a grammar over them makes the vocabulary of the FSG grow again
         * after its alternate and filler word sets exist */
        fputs("go G OW\ngo(2) G AH\nforward F AO R W ER D\n"
              "one W AH N\none(2) HH W AH N\ntwo T UW\ntwo(2) T AH\nthree TH R IY\nthree(2) TH ER IY\nfour F AO R\nfour(2) F OW R\n"
              "five F AY V\nfive(2) F AY F\nsix S IH K S\nsix(2) S IH K\nseven S EH V AH N\nseven(2) S EH V N\neight EY T\neight(2) EY\n"
              "nine N AY N\nnine(2) N AY\nten T EH N\nten(2) T IH N\neleven IH L EH V AH N\neleven(2) L EH V AH N\ntwelve T W EH L V\ntwelve(2) T W EH L\n",
              fp);
        fclose(fp);
        config_set_str(cfg, "hmm", MODELDIR);
        config_set_str(cfg, "dict", dp);
        config_set_str(cfg, "loglevel", "FATAL");
        D = decoder_init(cfg);
        unlink(dp);
        if (!D)
            return 2;
    }
    setup_tokens();
    setup_seeds();
    if (cas) {
        size_t len;
        unsigned char *d = undescribe(cas, &len);
        if (!d)
            return 2;
        run_case(d, len, 0);
        mc_finish();
        return 0;
    }
    total = SPACE == 0 ? tokens_total() : SPACE == 1 ? mutate_total() : nest_total();
    for (i = 0; i < 3 && i < total; i++) {
        char cd[600];
        size_t len = SPACE == 0 ? tokens_build(total / 2 + i * 7919) : SPACE == 1 ? mutate_build(total / 3 + i * 101) : nest_build(i);
        describe(BUF, len, cd, sizeof cd);
        mc_sample("%s: %.*s", cd, (int)(len < 120 ? len : 120), (const char *)BUF);
    }
    complete = mc_fork_loop(shard, total, nshard, 2000, 20, run_index, NULL);
    mc_stat("evaluations", mc_sh ? mc_sh->evals : 0);
    mc_stat("nontrivial", mc_sh ? mc_sh->nontriv : 0);
    mc_flag("exhaustive", complete);
    mc_finish();
    return 0;
}
