/* H1 mc_hash -- C20: the hash table behaves as a map under any operation history.
 * E-BFS to fixpoint over the real hash_table_t with keys forced to collide (DESIGN.md H1).
 *
 * usage: mc_hash --mode cs|nocase|bin --nkeys N            explore
 *        mc_hash --mode ... --nkeys N --case "<history>"    replay one history
 */
#include "../engine/mc.h"
#include <ctype.h>
#include <soundswallower/ckd_alloc.h>
#include <soundswallower/glist.h>
#include <soundswallower/hash_table.h>

#define MAXK 10
typedef struct {
    char bytes[48];
    size_t len;
    char name[120];
    const char *ptr; /* what is handed to the table: the key's own bytes, or (binary mode) the START OF ANOTHER KEY'S buffer, so
                        that two keys of different length share an address (the table keeps the caller's pointer) */
} hkey_t;

static hkey_t K[MAXK];
static int NK = 0;
static int MODE; /* 0 cs, 1 nocase, 2 bin (case-sensitive table, *_bkey API) */
static int SUB; /* 1: the second key set of the mode (binlong: binary keys longer than 32 bytes; nocasepunct: non-letters that differ in bit 5) */
static int cls[MAXK]; /* equivalence class representative under the table's equality */

static int
up(int c)
{
    return (c >= 'a' && c <= 'z') ? c - 32 : c;
}

static int
key_equal(const hkey_t *a, const hkey_t *b)
{
    size_t i;
    if (a->len != b->len)
        return 0;
    for (i = 0; i < a->len; i++) {
        if (MODE == 1) {
            if (up((unsigned char)a->bytes[i]) != up((unsigned char)b->bytes[i]))
                return 0;
        } else if (a->bytes[i] != b->bytes[i])
            return 0;
    }
    return 1;
}

/* which bucket does a key land in?  asked of the real table, not re-implemented */
static int
bucket_of(const char *bytes, size_t len)
{
    hash_table_t *h = hash_table_new(0, MODE == 1 ? HASH_CASE_NO : HASH_CASE_YES);
    int i, b = -1;
    if (MODE == 2)
        hash_table_enter_bkey(h, bytes, len, (void *)1);
    else
        hash_table_enter(h, bytes, (void *)1);
    for (i = 0; i < hash_table_size(h); i++)
        if (h->table[i].key != NULL)
            b = i;
    hash_table_free(h);
    return b;
}

static void
add_key(const char *bytes, size_t len)
{
    size_t i, o = 0;
    hkey_t *k = &K[NK];
    memset(k, 0, sizeof *k);
    memcpy(k->bytes, bytes, len);
    k->len = len;
    k->ptr = k->bytes;
    if (len == 0)
        strcpy(k->name, "<empty>");
    else if (len > 10) {
        o = snprintf(k->name, sizeof k->name, "L%zu-", len);
        for (i = 0; i < len; i++)
            o += snprintf(k->name + o, sizeof k->name - o, "%02x", (unsigned char)bytes[i]);
    }
    else
        for (i = 0; i < len; i++)
            o += snprintf(k->name + o, sizeof k->name - o,
                          (isalnum((unsigned char)bytes[i])) ? "%c" : "%%%02x", (unsigned char)bytes[i]);
    NK++;
}

/* enumerate candidate strings over `alpha` in length-lexicographic order; return the first
 * that satisfies pred and is not already a key */
static int
find_key(const char *alpha, int nalpha, int minlen, int maxlen, const char *prefix, size_t plen,
         int want_bucket, int (*pred)(const char *, size_t), char *out, size_t *outlen)
{
    int len, idx[12], i;
    char buf[16];
    for (len = minlen; len <= maxlen; len++) {
        memset(idx, 0, sizeof idx);
        for (;;) {
            size_t l = plen + len;
            int dup = 0;
            memcpy(buf, prefix, plen);
            for (i = 0; i < len; i++)
                buf[plen + i] = alpha[idx[i]];
            buf[l] = 0;
            for (i = 0; i < NK; i++)
                if (K[i].len == l && memcmp(K[i].bytes, buf, l) == 0)
                    dup = 1;
            if (!dup && (want_bucket < 0 || bucket_of(buf, l) == want_bucket) && (!pred || pred(buf, l))) {
                memcpy(out, buf, l + 1);
                *outlen = l;
                return 1;
            }
            for (i = len - 1; i >= 0; i--) {
                if (++idx[i] < nalpha)
                    break;
                idx[i] = 0;
            }
            if (i < 0)
                break;
        }
    }
    return 0;
}

static char casebase[16];
static size_t casebaselen;
static int
pred_casevariant(const char *s, size_t l)
{
    size_t i;
    int diff = 0;
    if (l != casebaselen)
        return 0;
    for (i = 0; i < l; i++) {
        if (up((unsigned char)s[i]) != up((unsigned char)casebase[i]))
            return 0;
        if (s[i] != casebase[i])
            diff = 1;
    }
    return diff;
}

static void
choose_keys(int nkeys)
{
    char buf[16];
    size_t l;
    int b0;
    if (MODE == 2 && SUB) {
        /* binary keys LONGER than any fixed-size scratch buffer a hashing shortcut might use: two 40-byte keys that agree in their first
         * 33 bytes, one that differs in its first byte, the 33-byte common prefix, and a short key */
        char a[40], b[40], c[40];
        int i;
        for (i = 0; i < 40; i++)
            a[i] = b[i] = c[i] = (char)(i * 7 + 1);
        b[36] ^= 0x55;
        c[0] ^= 0x55;
        NK = 0;
        add_key(a, 40);
        add_key(b, 40);
        add_key(c, 40);
        add_key(a, 33);
        add_key("a", 1);
        a[39] = 0;
        add_key(a, 40);
    } else if (MODE == 1 && SUB) {
        /* non-letters that differ only in bit 5 ('@' '`', '[' '{', '^' '~') are DIFFERENT keys also in a case-insensitive table; each pair is
         * searched for with a common prefix that puts both in ONE bucket (asked of the real table) */
        /* the table's hash is additive, so two such keys share a bucket only if they differ in several places: all 256 variants of a template
         * with eight such characters go into 101 buckets, two of them must collide (asked of the real table) */
        static const char tmpl[] = "n@a[b\\c]d^e@f[g]";
        static const int pos[8] = { 1, 3, 5, 7, 9, 11, 13, 15 };
        int i, j, q, f = 0, bk[256];
        char v[256][20];
        NK = 0;
        for (i = 0; i < 256; i++) {
            memcpy(v[i], tmpl, sizeof tmpl);
            for (q = 0; q < 8; q++)
                if ((i >> q) & 1)
                    v[i][pos[q]] = (char)(v[i][pos[q]] ^ 0x20);
            bk[i] = bucket_of(v[i], sizeof tmpl - 1);
        }
        for (i = 0; i < 256 && f < 2; i++)
            for (j = i + 1; j < 256 && f < 2; j++)
                if (bk[i] == bk[j] && (f == 0 || bk[i] != bucket_of(K[0].bytes, K[0].len))) {
                    add_key(v[i], sizeof tmpl - 1);
                    add_key(v[j], sizeof tmpl - 1);
                    f++;
                    break;
                }
        if (f < 2) {
            fprintf(stderr, "punctuation key search failed\n");
            exit(2);
        }
        {
            char u[20];
            memcpy(u, K[0].bytes, K[0].len + 1);
            u[0] = (char)(u[0] - 32); /* the first key in another letter case: the SAME key */
            add_key(u, K[0].len);
        }
    } else if (MODE == 1) {
        /* a case-insensitive table must find a key under ANY spelling: the second key is simply the other spelling of the
         * first, wherever the table puts it */
        NK = 0;
        add_key("abab", 4);
        add_key("ABaB", 4);
        b0 = bucket_of(K[0].bytes, K[0].len);
        if (!find_key("cdefg", 5, 1, 5, K[0].bytes, K[0].len, b0, NULL, buf, &l))
            exit(2);
        add_key(buf, l); /* k0 + suffix, same bucket */
        if (!find_key("xyzw", 4, 1, 6, "", 0, b0, NULL, buf, &l))
            exit(2);
        add_key(buf, l); /* unrelated, same bucket */
        add_key("", 0);
        add_key("q", 1);
        add_key("ABAB", 4);
        add_key("XYZW", 4);
    } else if (MODE != 2) {
        /* k0 and a case variant of it in the SAME bucket (always true for nocase tables;
         * searched for in case-sensitive ones), a key that extends k0, an unrelated key in
         * the same bucket, the empty key, a key elsewhere. */
        /* two spellings over {a,A} of one length that share a bucket: 2^7 spellings into
         * 101 buckets must collide (pigeonhole), so the search cannot fail */
        int found = 0, len, i, j;
        for (len = 2; len <= 7 && !found; len++) {
            int n = 1 << len, bk[128];
            char sp[128][8];
            for (i = 0; i < n; i++) {
                for (j = 0; j < len; j++)
                    sp[i][j] = (i >> j) & 1 ? 'A' : 'a';
                sp[i][len] = 0;
                bk[i] = bucket_of(sp[i], len);
            }
            for (i = 0; i < n && !found; i++)
                for (j = i + 1; j < n && !found; j++)
                    if (bk[i] == bk[j]) {
                        NK = 0;
                        add_key(sp[i], len);
                        add_key(sp[j], len);
                        found = 1;
                    }
        }
        if (!found) {
            fprintf(stderr, "key search failed\n");
            exit(2);
        }
        b0 = bucket_of(K[0].bytes, K[0].len);
        if (!find_key("cdefg", 5, 1, 5, K[0].bytes, K[0].len, b0, NULL, buf, &l))
            exit(2);
        add_key(buf, l); /* k0 + suffix, same bucket */
        if (!find_key("xyzw", 4, 1, 6, "", 0, b0, NULL, buf, &l))
            exit(2);
        add_key(buf, l); /* unrelated, same bucket */
        add_key("", 0);
        if (!find_key("q", 1, 1, 1, "", 0, -1, NULL, buf, &l))
            exit(2);
        add_key(buf, l); /* different bucket (checked below) */
        if (nkeys > 6) {
            /* a key colliding with the empty key, and a case variant of the suffix key */
            if (!find_key("mnop", 4, 1, 6, "", 0, bucket_of("", 0), NULL, buf, &l))
                exit(2);
            add_key(buf, l);
        }
        if (nkeys > 7) {
            memcpy(casebase, K[2].bytes, K[2].len + 1);
            casebaselen = K[2].len;
            if (!find_key("abABcdefgCDEFG", 14, (int)K[2].len, (int)K[2].len, "", 0, MODE == 1 ? -1 : -1,
                          pred_casevariant, buf, &l))
                exit(2);
            add_key(buf, l);
        }
    } else {
        static const char alpha[] = { 0, 1, 'a', 'b', 'c', (char)0xff, (char)0x80 };
        /* two keys of one length that agree up to AND INCLUDING a zero byte, differ after it, and share a bucket
         * (a comparison that stops at the zero byte confuses them): 343 spellings a\0xyz into 101 buckets must collide */
        int found = 0, i, j, n = 0, bk[343];
        char sp[343][5];
        for (i = 0; i < 7 * 7 * 7; i++) {
            sp[n][0] = 'a';
            sp[n][1] = 0;
            sp[n][2] = alpha[i % 7];
            sp[n][3] = alpha[i / 7 % 7];
            sp[n][4] = alpha[i / 49];
            bk[n] = bucket_of(sp[n], 5);
            n++;
        }
        NK = 0;
        for (i = 0; i < n && !found; i++)
            for (j = i + 1; j < n && !found; j++)
                if (bk[i] == bk[j]) {
                    add_key(sp[i], 5);
                    add_key(sp[j], 5);
                    found = 1;
                }
        if (!found) {
            fprintf(stderr, "key search failed\n");
            exit(2);
        }
        b0 = bucket_of(K[0].bytes, K[0].len);
        if (!find_key(alpha, 7, 1, 5, K[0].bytes, K[0].len, b0, NULL, buf, &l))
            exit(2);
        add_key(buf, l); /* extends key 0, same bucket */
        if (!find_key(alpha, 7, 1, 5, "", 0, b0, NULL, buf, &l))
            exit(2);
        add_key(buf, l); /* unrelated, same bucket */
        add_key("\0", 1);
        add_key("", 0);
        add_key("\0\0", 2);
        add_key("a", 1);
        /* two prefixes of ONE buffer that share a bucket: same address, different length.  Searched over buffers
         * b c x y z w .. ; placed fifth and sixth so that --nkeys 6 keeps them */
        {
            int f2 = 0, a, b2, c, l1, l2;
            for (a = 0; a < 7 && !f2; a++)
                for (b2 = 0; b2 < 7 && !f2; b2++)
                    for (c = 0; c < 7 && !f2; c++) {
                        char B[12] = { 'b', 'c', 0, 0, 0, 'q', 'r', 's', 't', 'u', 'v', 'w' };
                        B[2] = alpha[a], B[3] = alpha[b2], B[4] = alpha[c];
                        for (l1 = 1; l1 < 12 && !f2; l1++)
                            for (l2 = l1 + 1; l2 <= 12 && !f2; l2++)
                                if (bucket_of(B, l1) == bucket_of(B, l2)) {
                                    hkey_t tmp;
                                    add_key(B, l2);
                                    add_key(B, l1);
                                    K[NK - 1].ptr = K[NK - 2].bytes; /* the shorter one lives at the longer one's address */
                                    snprintf(K[NK - 1].name, sizeof K[NK - 1].name, "prefix%d-of-key", l1);
                                    /* move the pair to positions 4 and 5 */
                                    tmp = K[4], K[4] = K[NK - 2], K[NK - 2] = tmp;
                                    tmp = K[5], K[5] = K[NK - 1], K[NK - 1] = tmp;
                                    {
                                        int q;
                                        for (q = 0; q < NK; q++)
                                            K[q].ptr = K[q].bytes; /* the structs moved: addresses anew */
                                        K[5].ptr = K[4].bytes;
                                    }
                                    f2 = 1;
                                }
                    }
            if (!f2) {
                fprintf(stderr, "alias key search failed\n");
                exit(2);
            }
        }
    }
    if (NK > nkeys)
        NK = nkeys;
    {
        int i, j;
        for (i = 0; i < NK; i++) {
            cls[i] = i;
            for (j = 0; j < i; j++)
                if (key_equal(&K[i], &K[j])) {
                    cls[i] = cls[j];
                    break;
                }
        }
    }
}

/* ----- object under exploration: real table + reference map ----- */
typedef struct {
    hash_table_t *h;
    int present[MAXK]; /* indexed by class */
    int val[MAXK];
} obj_t;

enum { OP_ENTER1, OP_ENTER2, OP_REPL1, OP_REPL2, OP_DEL, OPS_PER_KEY };
static char opnames[MAXK * OPS_PER_KEY + 1][140];

static const char *
opname(void *ctx, int op)
{
    (void)ctx;
    return opnames[op];
}

static void *
fresh(void *ctx)
{
    obj_t *o = calloc(1, sizeof *o);
    (void)ctx;
    o->h = hash_table_new(0, MODE == 1 ? HASH_CASE_NO : HASH_CASE_YES);
    return o;
}

static void
release(void *ctx, void *v)
{
    obj_t *o = v;
    (void)ctx;
    hash_table_free(o->h);
    free(o);
}

static int
key_index(const char *p, size_t len)
{
    int i, first = -1;
    for (i = 0; i < NK; i++)
        if (p == K[i].ptr) {
            if (K[i].len == len)
                return i;
            if (first < 0)
                first = i;
        }
    return first;
}

static void
canon(void *ctx, void *v, mc_buf *b)
{
    obj_t *o = v;
    int i;
    (void)ctx;
    mc_buf_i(b, o->h->inuse);
    for (i = 0; i < o->h->size; i++) {
        hash_entry_t *e = &o->h->table[i];
        if (e->key == NULL) {
            if (e->next != NULL) { /* chain hanging off an empty head: part of the state */
                mc_buf_i(b, i);
                mc_buf_i(b, -7);
            } else
                continue;
        }
        mc_buf_i(b, i);
        for (; e; e = e->next) {
            mc_buf_i(b, e->key ? key_index(e->key, e->len) : -2);
            mc_buf_i(b, (long long)e->len);
            mc_buf_i(b, (long long)(size_t)e->val);
        }
        mc_buf_i(b, -1);
    }
}

static int
observe(obj_t *o, const char *hist, const char *what)
{
    int i, nlive = 0, seen[MAXK], cnt;
    hash_iter_t *it;
    glist_t g, gn;
    int32 count = -12345;
    char sig[128];

    for (i = 0; i < NK; i++)
        if (cls[i] == i && o->present[i])
            nlive++;
    for (i = 0; i < NK; i++) {
        void *val = (void *)0x5a5a;
        int rc = (MODE == 2) ? hash_table_lookup_bkey(o->h, K[i].ptr, K[i].len, &val)
                             : hash_table_lookup(o->h, K[i].ptr, &val);
        int c = cls[i];
        if (o->present[c]) {
            if (rc != 0) {
                snprintf(sig, sizeof sig, "C20/lookup-misses-live-key");
                mc_viol(sig, hist, "after %s: lookup(%s) failed, model has value %d", what, K[i].name, o->val[c]);
                return -1;
            }
            if ((int)(size_t)val != o->val[c]) {
                mc_viol("C20/lookup-wrong-value", hist, "after %s: lookup(%s)=%d, model %d", what, K[i].name,
                        (int)(size_t)val, o->val[c]);
                return -1;
            }
        } else if (rc == 0) {
            mc_viol("C20/lookup-finds-absent-key", hist, "after %s: lookup(%s) succeeded (val %d), model: absent",
                    what, K[i].name, (int)(size_t)val);
            return -1;
        } else if (rc != -1) {
            mc_viol("C20/lookup-bad-return", hist, "after %s: lookup(%s) returned %d", what, K[i].name, rc);
            return -1;
        }
    }
    if (hash_table_inuse(o->h) != nlive) {
        mc_viol("C20/inuse-count", hist, "after %s: inuse=%d, model has %d live keys", what, hash_table_inuse(o->h),
                nlive);
        return -1;
    }
    /* iterator: every live entry exactly once */
    memset(seen, 0, sizeof seen);
    cnt = 0;
    for (it = hash_table_iter(o->h); it; it = hash_table_iter_next(it)) {
        hash_entry_t *e = it->ent;
        int ki = key_index(hash_entry_key(e), hash_entry_len(e));
        cnt++;
        if (cnt > NK + 2) {
            hash_table_iter_free(it);
            mc_viol("C20/iter-too-many", hist, "after %s: iterator yields more entries than keys exist", what);
            return -1;
        }
        if (ki < 0 || hash_entry_len(e) != K[ki].len || !o->present[cls[ki]]
            || (int)(size_t)hash_entry_val(e) != o->val[cls[ki]]) {
            hash_table_iter_free(it);
            mc_viol("C20/iter-bad-entry", hist, "after %s: iterator entry key#%d len %zu val %d not a live model entry",
                    what, ki, hash_entry_len(e), (int)(size_t)hash_entry_val(e));
            return -1;
        }
        seen[cls[ki]]++;
    }
    for (i = 0; i < NK; i++)
        if (cls[i] == i && seen[i] != (o->present[i] ? 1 : 0)) {
            mc_viol("C20/iter-not-exactly-once", hist, "after %s: key %s visited %d times by iterator, live=%d", what,
                    K[i].name, seen[i], o->present[i]);
            return -1;
        }
    /* list export */
    memset(seen, 0, sizeof seen);
    g = hash_table_tolist(o->h, &count);
    cnt = 0;
    for (gn = g; gn; gn = gnode_next(gn)) {
        hash_entry_t *e = gnode_ptr(gn);
        int ki = key_index(hash_entry_key(e), hash_entry_len(e));
        cnt++;
        if (ki < 0 || hash_entry_len(e) != K[ki].len || !o->present[cls[ki]]
            || (int)(size_t)hash_entry_val(e) != o->val[cls[ki]]) {
            glist_free(g);
            mc_viol("C20/tolist-bad-entry", hist, "after %s: list entry key#%d not a live model entry", what, ki);
            return -1;
        }
        seen[cls[ki]]++;
    }
    glist_free(g);
    if (count != nlive || cnt != nlive) {
        mc_viol("C20/tolist-count", hist, "after %s: tolist count=%d walked=%d model=%d", what, count, cnt, nlive);
        return -1;
    }
    for (i = 0; i < NK; i++)
        if (cls[i] == i && seen[i] != (o->present[i] ? 1 : 0)) {
            mc_viol("C20/tolist-not-exactly-once", hist, "after %s: key %s listed %d times", what, K[i].name, seen[i]);
            return -1;
        }
    return 0;
}

static int
apply(void *ctx, void *v, int op, int check, const char *hist)
{
    obj_t *o = v;
    (void)ctx;
    if (op == NK * OPS_PER_KEY) {
        hash_table_empty(o->h);
        memset(o->present, 0, sizeof o->present);
    } else {
        int k = op / OPS_PER_KEY, kind = op % OPS_PER_KEY, c = cls[k];
        void *ret, *expect;
        int nv = (kind == OP_ENTER2 || kind == OP_REPL2) ? 2 : 1;
        switch (kind) {
        case OP_ENTER1:
        case OP_ENTER2:
            ret = (MODE == 2) ? hash_table_enter_bkey(o->h, K[k].ptr, K[k].len, (void *)(size_t)nv)
                              : hash_table_enter(o->h, K[k].ptr, (void *)(size_t)nv);
            if (o->present[c])
                expect = (void *)(size_t)o->val[c];
            else {
                expect = (void *)(size_t)nv;
                o->present[c] = 1;
                o->val[c] = nv;
            }
            break;
        case OP_REPL1:
        case OP_REPL2:
            ret = (MODE == 2) ? hash_table_replace_bkey(o->h, K[k].ptr, K[k].len, (void *)(size_t)nv)
                              : hash_table_replace(o->h, K[k].ptr, (void *)(size_t)nv);
            expect = o->present[c] ? (void *)(size_t)o->val[c] : (void *)(size_t)nv;
            o->present[c] = 1;
            o->val[c] = nv;
            break;
        default:
            ret = (MODE == 2) ? hash_table_delete_bkey(o->h, K[k].ptr, K[k].len)
                              : hash_table_delete(o->h, K[k].ptr);
            expect = o->present[c] ? (void *)(size_t)o->val[c] : NULL;
            o->present[c] = 0;
            break;
        }
        if (check && ret != expect) {
            mc_viol("C20/return-value", hist, "%s returned %d, contract says %d", opnames[op], (int)(size_t)ret,
                    (int)(size_t)expect);
            return -1;
        }
    }
    if (check)
        return observe(o, hist, opnames[op]);
    return 0;
}

int
main(int argc, char **argv)
{
    const char *mode = mc_arg(argc, argv, "--mode", "cs");
    int nkeys = atoi(mc_arg(argc, argv, "--nkeys", "6"));
    const char *cas = mc_arg(argc, argv, "--case", NULL);
    mc_bfs_spec sp;
    mc_bfs_result r;
    int i, k;
    char desc[512];
    size_t off = 0;

    mc_init();
    mc_install_crash_hooks();
    MODE = strncmp(mode, "nocase", 6) == 0 ? 1 : strncmp(mode, "bin", 3) == 0 ? 2 : 0;
    SUB = strcmp(mode, "binlong") == 0 || strcmp(mode, "nocasepunct") == 0;
    choose_keys(nkeys);
    for (k = 0; k < NK; k++) {
        static const char *kn[] = { "enter1", "enter2", "replace1", "replace2", "delete" };
        for (i = 0; i < OPS_PER_KEY; i++)
            snprintf(opnames[k * OPS_PER_KEY + i], sizeof opnames[0], "%s(%s)", kn[i], K[k].name);
    }
    strcpy(opnames[NK * OPS_PER_KEY], "empty()");
    memset(&sp, 0, sizeof sp);
    sp.nops = NK * OPS_PER_KEY + 1;
    sp.fresh = fresh;
    sp.apply = apply;
    sp.canon = canon;
    sp.release = release;
    sp.opname = opname;
    sp.max_states = 4000000;

    off = snprintf(desc, sizeof desc, "mode=%s keys:", mode);
    for (k = 0; k < NK; k++)
        off += snprintf(desc + off, sizeof desc - off, " %s@bucket%d%s", K[k].name, bucket_of(K[k].bytes, K[k].len),
                        cls[k] != k ? "(=earlier key)" : "");
    if (cas) {
        int bad = mc_bfs_replay(&sp, cas);
        mc_stat("replayed", 1);
        mc_stat("replay_bad", bad);
        mc_finish();
        return 0;
    }
    /* vacuity guard: at least 3 distinct keys share one bucket */
    {
        int b0 = bucket_of(K[0].bytes, K[0].len), same = 0;
        for (k = 0; k < NK; k++)
            if (cls[k] == k && bucket_of(K[k].bytes, K[k].len) == b0)
                same++;
        if (same < (SUB ? (MODE == 1 ? 2 : 1) : 3)) {
            fprintf(stderr, "key alphabet does not collide: %s\n", desc);
            return 2;
        }
        mc_max("keys_in_one_bucket", same);
    }
    mc_sample("%s", desc);
    r = mc_bfs_run(&sp);
    mc_stat("states", r.states);
    mc_stat("transitions", r.transitions);
    mc_max("max_depth", r.max_depth_seen);
    mc_flag("fixpoint", r.fixpoint);
    mc_finish();
    return 0;
}
