/* H9 mc_session -- C09 (no API history corrupts memory, aborts or leaks), C08 (utterances and decoders are
 * isolated, decoding is deterministic), C16 (dictionary additions).  E-ENUM over API histories: every
 * sequence of operations up to a length bound over an alphabet of ~40 public-API calls, each history in a
 * forked child of a parent that holds an initialised decoder (real model, real front end, REAL scorer,
 * real audio excerpts).  DESIGN.md H9.
 *
 * usage: mc_session --set all|core|proto --len N [--props C08,C09,C16] [--shard i/n] [--case "<history>"]
 */
#include "../engine/mc.h"
#include "synth_model.h"
#include <soundswallower/alignment.h>
#include <soundswallower/config_defs.h>
#include <soundswallower/decoder.h>
#include <soundswallower/dict.h>
#include <soundswallower/err.h>
#include <soundswallower/lattice.h>
#include <soundswallower/search_module.h>

#ifndef MODELDIR
#define MODELDIR "/repo/model/en-us"
#endif
#ifndef DATADIR
#define DATADIR "/repo/tests/data"
#endif

static const char *DICT_TEXT = "a AH\na(2) EY\ndo D UW\ngo G OW\nforward F AO R W ER D\nten T EH N\nmeters M IY T ER Z\n"
                               "stop S T AA P\none W AH N\ntwo T UW\n";
static char DICT_PATH[512];
static decoder_t *D;
static int P_C08 = 1, P_C09 = 1, P_C16 = 1;
static int TWO; /* a second decoder is alive and used between the operations of the first */

static const char *G1 = "#JSGF V1.0; grammar g; public <s> = [go | do] [forward] [ten] [meters];"; /* every excerpt of the recording has a complete
                                                                                                         path; two confusable first words */
static const char *G2 = "#JSGF V1.0; grammar h; public <s> = (one | two | stop)+;";
static const char *G_BAD = "#JSGF V1.0; grammar b; public <s> = ( go ;";
static const char *G_UNDEF = "#JSGF V1.0; grammar u; public <s> = go <nowhere>;";
static const char *G_UNKW = "#JSGF V1.0; grammar w; public <s> = go zzzz;";
static const char *CMN_FIXED = "41.00,-5.29,-0.12,5.09,2.48,-4.07,-1.37,-1.78,-5.08,-2.05,-6.45,-1.42,1.17";

static int16 *AUD_A, *AUD_B, *AUD_SIL, *AUD_QA, *AUD_QB, *AUD_ALL;
static size_t N_ALL;
#define DIGN 16384
static float32 *AUD_AF;
static size_t N_A, N_B, N_SIL, N_P;
static int16 *AUD_P; /* the probe utterance: the whole recording */

static void
load_audio(void)
{
    FILE *fp = fopen(DATADIR "/goforward.raw", "rb");
    static int16 all[60000];
    size_t n, i;
    if (!fp) {
        perror("goforward.raw");
        exit(2);
    }
    n = fread(all, 2, 60000, fp);
    fclose(fp);
    if (n < 40000) {
        fprintf(stderr, "short audio file\n");
        exit(2);
    }
    N_A = 14000; /* "go forward" */
    N_B = 12000;
    N_SIL = 6000;
    AUD_A = malloc(N_A * 2);
    AUD_B = malloc(N_B * 2);
    AUD_SIL = calloc(N_SIL, 2);
    AUD_AF = malloc(N_A * sizeof(float32));
    N_P = n > 30000 ? 30000 : n; /* "go forward ten" and the start of "meters": 1.9 s */
    AUD_P = malloc(n * 2);
    memcpy(AUD_P, all, n * 2);
    memcpy(AUD_A, all + 2000, N_A * 2);
    memcpy(AUD_B, all + 20000, N_B * 2);
    AUD_ALL = malloc(n * 2);
    memcpy(AUD_ALL, all, n * 2);
    N_ALL = n;
    AUD_QA = malloc(N_A * 2);
    AUD_QB = malloc(N_B * 2);
    memcpy(AUD_QA, all + 24000, N_A * 2);
    memcpy(AUD_QB, all + 4000, N_B * 2);
    for (i = 0; i < N_A; i++)
        AUD_AF[i] = AUD_A[i] / 32768.0f;
}

/* --synth semi|ms|mixw: decoders load a synthetic model (see synth_model.h) instead of the bundled one */
static char SYNTH_DIR[600];
static int SYNTH_MS, MAXHMMPF, NOGRAM;
static const char *CFGOPTS = "";
static void
synth_cleanup(void)
{
    if (SYNTH_DIR[0] && !mc_child_mode)
        rm_model(SYNTH_DIR);
}

static int OTHER_CONFIG;
static decoder_t *
make_decoder(void)
{
    config_t *cfg = config_init(NULL);
    decoder_t *d;
    config_set_str(cfg, "hmm", SYNTH_DIR[0] ? SYNTH_DIR : MODELDIR);
    if (SYNTH_MS)
        config_set_str(cfg, "senmgau", ".semi.");
    config_set_str(cfg, "dict", DICT_PATH);
    config_set_str(cfg, "loglevel", "FATAL");
    if (MAXHMMPF > 0)
        config_set_int(cfg, "maxhmmpf", MAXHMMPF); /* the cap that makes the search narrow its beams dynamically */
    if (OTHER_CONFIG) {
        /* the second decoder of --two 2 is configured DIFFERENTLY from the decoder under test: whatever a decoder reads from its own
         * configuration must not come from the neighbour's */
        config_set_int(cfg, "maxhmmpf", 4);
        config_set_str(cfg, "beam", "1e-30");
        config_set_str(cfg, "wbeam", "1e-20");
        config_set_str(cfg, "pbeam", "1e-30");
        config_set_str(cfg, "wip", "0.3");
        config_set_str(cfg, "lw", "3.0");
    }
    {
        /* --cfg key=value,key=value: non-default options */
        char buf[512], *tok, *save = NULL;
        snprintf(buf, sizeof buf, "%s", CFGOPTS);
        for (tok = strtok_r(buf, ",", &save); tok; tok = strtok_r(NULL, ",", &save)) {
            char *eq = strchr(tok, '=');
            if (!eq)
                continue;
            *eq = 0;
            if (config_set_str(cfg, tok, eq + 1) == NULL) {
                fprintf(stderr, "cannot set %s=%s\n", tok, eq + 1);
                exit(2);
            }
        }
    }
    d = decoder_init(cfg);
    if (!d) {
        fprintf(stderr, "decoder_init failed\n");
        exit(2);
    }
    /* --nogram 1: the decoder starts life WITHOUT a grammar (a state the default start never visits) */
    if (!NOGRAM && decoder_set_jsgf_string(d, G1) < 0) {
        fprintf(stderr, "initial grammar refused\n");
        exit(2);
    }
    return d;
}

/* ---------- operations ---------- */
enum {
    OP_START, OP_PROC_A, OP_END, OP_HYP, OP_SEG_WALK, OP_ALIGN, OP_FREE, /* protocol core: 0..6 */
    OP_PROC_B, OP_PROC_SIL, OP_PROC_EMPTY, OP_PROC_A_NOSEARCH, OP_PROC_A_FULL, OP_PROC_A_FLOAT, OP_SEG_ONE, OP_LATTICE, OP_NBEST3, OP_NBEST_SEG,
    OP_JSON0, /* core: 0..17 */
    OP_JSON1, OP_JSON2, OP_SET_G1, OP_SET_G2, OP_SET_BAD, OP_SET_UNDEF, OP_SET_UNKW, OP_ALIGN_T1, OP_ALIGN_EMPTY, OP_ALIGN_UNK, OP_ADD_NEW,
    OP_ADD_ALT, OP_ADD_DUP, OP_ADD_ALT_NOBASE, OP_ADD_BADPHONE, OP_ADD_EMPTYWORD, OP_ADD_EMPTYPRON, OP_ADD_NEW_NOUPDATE, OP_ADD_ALT_DUP, OP_LOOKUP,
    OP_GETCMN0, OP_GETCMN1, OP_SETCMN, OP_REINIT, OP_ADD_MANY, OP_ADD_ONEPHONE, OP_ADD_WS, OP_PROC_ALL, OP_PROC_ALL_FULL, NOPS
};
static const char *const OPNAME[NOPS] = {
    "start", "procA", "end", "hyp", "segwalk", "alignment", "free",
    "procB", "procSil", "procEmpty", "procA_nosearch", "procA_fullutt", "procA_float", "segone", "lattice", "nbest3", "nbestseg",
    "json0",
    "json1", "json2", "setG1", "setG2", "setBadSyntax", "setUndefRule", "setUnknownWord", "alignT1", "alignEmpty", "alignUnknown", "addNew",
    "addAlt", "addDup", "addAltNoBase", "addBadPhone", "addEmptyWord", "addEmptyPron", "addNewNoUpdate", "addAltTwice", "lookup",
    "getcmn0", "getcmn1", "setcmn", "reinit", "addMany", "addOnePhone", "addWithWhitespace", "procAll", "procAll_fullutt",
};
#define N_PROTO 7
#define N_CORE 18

enum { ST_IDLE, ST_ACTIVE, ST_ENDED };
typedef struct {
    int st, has_search, freed;
    int g1; /* the active grammar is G1, loaded by the last successful grammar operation */
    int many; /* the NMANY generated words w0000.. are in the dictionary (growth past the preallocated entries) */
    /* reference dictionary: words the history added successfully */
    struct {
        const char *word, *phones;
    } added[8];
    int nadded;
} model_t;

/* the last four are other spellings of known or addable words: found exactly when the dictionary is case-insensitive (dictcase=yes) */
static const char *const LOOKUPS[] = { "go", "forward", "ten", "a(2)", "zed", "go(2)", "zed2", "nobase(2)", "bad", "empt", "<sil>", "xoh", "zws", "GO", "Forward", "ZED", "Go(2)" };
static int DICTCASE;
#define NLOOK (int)(sizeof LOOKUPS / sizeof *LOOKUPS)
#define NMANY 4200
static const char *const MANYPRON[8] = { "G OW", "T EH N", "M IY", "F AO R", "S T AA P", "W AH N", "T UW", "Z EH D" };
static const char *
model_lookup(const model_t *m, const char *w)
{
    int i;
    if ((w[0] == 'w' || (DICTCASE && w[0] == 'W')) && strlen(w) == 5 && strspn(w + 1, "0123456789") == 4)
        return m->many && atoi(w + 1) < NMANY ? MANYPRON[atoi(w + 1) % 8] : NULL;
    static const char *const base[][2] = { { "go", "G OW" }, { "forward", "F AO R W ER D" }, { "ten", "T EH N" }, { "a(2)", "EY" }, { "<sil>", "SIL" } };
    for (i = 0; i < 5; i++)
        if ((DICTCASE ? strcasecmp : strcmp)(base[i][0], w) == 0)
            return base[i][1];
    for (i = 0; i < m->nadded; i++)
        if ((DICTCASE ? strcasecmp : strcmp)(m->added[i].word, w) == 0)
            return m->added[i].phones;
    return NULL;
}

static int
check_dict(const model_t *m, const char *cd, const char *after)
{
    int i;
    dict_t *dict = D->dict;
    for (i = 0; i < NLOOK; i++) {
        char *got = decoder_lookup_word(D, LOOKUPS[i]);
        const char *exp = model_lookup(m, LOOKUPS[i]);
        if ((got == NULL) != (exp == NULL) || (got && strcmp(got, exp) != 0)) {
            mc_viol("C16/lookup-differs-from-reference-dictionary", cd, "after %s: lookup(%s) = %s, reference dictionary says %s", after, LOOKUPS[i],
                    got ? got : "NULL", exp ? exp : "NULL");
            ckd_free(got);
            return -1;
        }
        ckd_free(got);
    }
    /* the generated words, all of them (the table has grown past its preallocated size when they are present) */
    for (i = 0; i < NMANY; i += m->many ? 1 : 1050) {
        char w[8], *got;
        const char *exp;
        snprintf(w, sizeof w, (i % 7 == 3) ? "W%04d" : "w%04d", i); /* every seventh in another case */
        got = decoder_lookup_word(D, w);
        exp = model_lookup(m, w);
        if ((got == NULL) != (exp == NULL) || (got && strcmp(got, exp) != 0)) {
            mc_viol("C16/lookup-differs-from-reference-dictionary", cd, "after %s: lookup(%s) = %s, reference dictionary says %s", after, w, got ? got : "NULL",
                    exp ? exp : "NULL");
            ckd_free(got);
            return -1;
        }
        ckd_free(got);
    }
    /* alternate chains: acyclic, members share the base, every alternate is on its base's chain */
    for (i = 0; i < dict->n_word; i++) {
        int b = dict_basewid(dict, i), w, steps = 0, found = (b == i);
        if (b < 0 || b >= dict->n_word || dict_basewid(dict, b) != b) {
            mc_viol("C16/alternate-chain-corrupt", cd, "after %s: word %s has base id %d", after, dict_wordstr(dict, i), b);
            return -1;
        }
        for (w = dict_nextalt(dict, b); w != BAD_S3WID; w = dict_nextalt(dict, w)) {
            if (w < 0 || w >= dict->n_word || ++steps > dict->n_word || dict_basewid(dict, w) != b) {
                mc_viol("C16/alternate-chain-corrupt", cd, "after %s: the alternate chain of %s reaches entry %d (%s), which %s", after, dict_wordstr(dict, b), w,
                        (w >= 0 && w < dict->n_word && dict_wordstr(dict, w)) ? dict_wordstr(dict, w) : "?",
                        (w < 0 || w >= dict->n_word) ? "is outside the dictionary" : steps > dict->n_word ? "closes a cycle" : "has a different base word");
                return -1;
            }
            if (w == i)
                found = 1;
        }
        if (!found) {
            mc_viol("C16/alternate-chain-corrupt", cd, "after %s: %s is not on the alternate chain of its base %s", after, dict_wordstr(dict, i),
                    dict_wordstr(dict, b));
            return -1;
        }
    }
    return 0;
}

static int
try_add(model_t *m, const char *word, const char *phones, int update, int expect_ok, const char *cd, const char *opn)
{
    int rv = decoder_add_word(D, word, phones, update);
    if (P_C16 && (rv >= 0) != expect_ok) {
        mc_viol(expect_ok ? "C16/valid-addition-rejected" : "C16/invalid-addition-accepted", cd, "%s: decoder_add_word(\"%s\", \"%s\") returned %d", opn, word, phones,
                rv);
        return -1;
    }
    if (rv >= 0 && m->nadded < 8) {
        m->added[m->nadded].word = word;
        m->added[m->nadded].phones = phones;
        m->nadded++;
    }
    return 0;
}

static int
expect_ret(int cond_ok, const char *cd, const char *opn, const char *state, const char *what, int rv)
{
    if (P_C09 && !cond_ok) {
        char sig[96];
        snprintf(sig, sizeof sig, "C09/return-value:%s:%s", opn, state);
        mc_viol(sig, cd, "%s in state %s returned %d, documented: %s", opn, state, rv, what);
        return -1;
    }
    return 0;
}

static const char *const STNAME[3] = { "idle", "in-utterance", "ended" };

/* returns 0 ok, 1 not enabled in this state (outside the documented protocol), -1 violation */
static int
apply_op(model_t *m, int op, const char *cd)
{
    int rv;
    const char *sn = STNAME[m->st];
    if (m->freed)
        return 1;
    /* configuration belongs between utterances */
    if (m->st == ST_ACTIVE && ((op >= OP_SET_G1 && op <= OP_ADD_ALT_DUP) || op == OP_ADD_MANY || op == OP_ADD_ONEPHONE || op == OP_ADD_WS))
        return 1;
    if (m->st == ST_ACTIVE && op == OP_REINIT)
        return 1;
    switch (op) {
    case OP_START:
        rv = decoder_start_utt(D);
        if (m->st == ST_ACTIVE || !m->has_search)
            return expect_ret(rv < 0, cd, "start", m->has_search ? sn : "no-grammar", "< 0", rv);
        if (expect_ret(rv == 0, cd, "start", sn, "0", rv) < 0)
            return -1;
        m->st = ST_ACTIVE;
        break;
    case OP_PROC_ALL:
    case OP_PROC_ALL_FULL:
    case OP_PROC_A:
    case OP_PROC_B:
    case OP_PROC_SIL:
    case OP_PROC_EMPTY:
    case OP_PROC_A_NOSEARCH:
    case OP_PROC_A_FULL:
    case OP_PROC_A_FLOAT: {
        int16 *buf = op == OP_PROC_B ? AUD_B : op == OP_PROC_SIL ? AUD_SIL : (op == OP_PROC_ALL || op == OP_PROC_ALL_FULL) ? AUD_ALL : AUD_A;
        size_t n = op == OP_PROC_B ? N_B : op == OP_PROC_SIL ? N_SIL : op == OP_PROC_EMPTY ? 0 : (op == OP_PROC_ALL || op == OP_PROC_ALL_FULL) ? N_ALL : N_A;
        if (op == OP_PROC_A_FLOAT)
            rv = decoder_process_float32(D, AUD_AF, n, 0, 0);
        else
            rv = decoder_process_int16(D, buf, n, op == OP_PROC_A_NOSEARCH, op == OP_PROC_A_FULL || op == OP_PROC_ALL_FULL);
        if (m->st != ST_ACTIVE)
            return expect_ret(rv < 0, cd, OPNAME[op], sn, "< 0", rv);
        if (expect_ret(rv >= 0, cd, OPNAME[op], sn, ">= 0", rv) < 0)
            return -1;
        break;
    }
    case OP_END:
        rv = decoder_end_utt(D);
        if (m->st != ST_ACTIVE)
            return expect_ret(rv < 0, cd, "end", m->has_search ? sn : "no-grammar", "< 0", rv);
        if (expect_ret(rv >= 0, cd, "end", sn, ">= 0", rv) < 0)
            return -1;
        m->st = ST_ENDED;
        break;
    case OP_HYP: {
        int32 sc;
        (void)decoder_hyp(D, &sc);
        break;
    }
    case OP_SEG_WALK: {
        seg_iter_t *it;
        for (it = decoder_seg_iter(D); it; it = seg_iter_next(it)) {
            int sf, ef;
            (void)seg_iter_word(it);
            seg_iter_frames(it, &sf, &ef);
        }
        break;
    }
    case OP_SEG_ONE: {
        seg_iter_t *it = decoder_seg_iter(D);
        if (it)
            seg_iter_free(it);
        break;
    }
    case OP_ALIGN: {
        alignment_t *al = decoder_alignment(D);
        if (al) {
            alignment_iter_t *it;
            for (it = alignment_states(al); it; it = alignment_iter_next(it))
                (void)alignment_iter_name(it);
        }
        break;
    }
    case OP_LATTICE:
        (void)decoder_lattice(D);
        break;
    case OP_NBEST3: {
        hyp_iter_t *it;
        int k = 0;
        for (it = decoder_nbest(D); it; it = hyp_iter_next(it)) {
            int32 sc;
            (void)hyp_iter_hyp(it, &sc);
            if (++k == 3) {
                hyp_iter_free(it);
                break;
            }
        }
        break;
    }
    case OP_NBEST_SEG: {
        hyp_iter_t *it = decoder_nbest(D);
        if (it) {
            seg_iter_t *s;
            for (s = hyp_iter_seg(it); s; s = seg_iter_next(s))
                (void)seg_iter_word(s);
            hyp_iter_free(it);
        }
        break;
    }
    case OP_JSON0:
    case OP_JSON1:
    case OP_JSON2:
        (void)decoder_result_json(D, 0.0, op == OP_JSON0 ? 0 : op == OP_JSON1 ? 1 : 2);
        break;
    case OP_SET_G1:
    case OP_SET_G2:
        rv = decoder_set_jsgf_string(D, op == OP_SET_G1 ? G1 : G2);
        if (expect_ret(rv == 0, cd, OPNAME[op], sn, "0", rv) < 0)
            return -1;
        m->has_search = 1;
        m->g1 = op == OP_SET_G1;
        if (m->st == ST_ENDED)
            m->st = ST_IDLE; /* results of the previous utterance are gone with its search */
        break;
    case OP_SET_BAD:
    case OP_SET_UNDEF:
    case OP_SET_UNKW:
        rv = decoder_set_jsgf_string(D, op == OP_SET_BAD ? G_BAD : op == OP_SET_UNDEF ? G_UNDEF : G_UNKW);
        return expect_ret(rv < 0, cd, OPNAME[op], sn, "< 0", rv);
    case OP_ALIGN_T1:
        rv = decoder_set_align_text(D, "go forward");
        if (expect_ret(rv == 0, cd, OPNAME[op], sn, "0", rv) < 0)
            return -1;
        m->has_search = 1;
        m->g1 = 0;
        if (m->st == ST_ENDED)
            m->st = ST_IDLE;
        break;
    case OP_ALIGN_EMPTY:
        rv = decoder_set_align_text(D, "");
        if (rv == 0) {
            m->has_search = 1;
            m->g1 = 0;
            if (m->st == ST_ENDED)
                m->st = ST_IDLE;
        }
        break; /* either answer is acceptable for an empty text; it must only not break anything */
    case OP_ALIGN_UNK:
        rv = decoder_set_align_text(D, "go zzzz");
        return expect_ret(rv < 0, cd, OPNAME[op], sn, "< 0", rv);
    case OP_ADD_NEW:
        return try_add(m, "zed", "Z EH D", 1, model_lookup(m, "zed") == NULL, cd, OPNAME[op]);
    case OP_ADD_NEW_NOUPDATE:
        return try_add(m, "zed2", "Z EH D Z", 0, model_lookup(m, "zed2") == NULL, cd, OPNAME[op]);
    case OP_ADD_ALT:
    case OP_ADD_ALT_DUP:
        return try_add(m, "go(2)", "G AH", 1, model_lookup(m, "go(2)") == NULL, cd, OPNAME[op]);
    case OP_ADD_DUP:
        return try_add(m, "go", "G OW", 1, 0, cd, OPNAME[op]);
    case OP_ADD_ALT_NOBASE:
        return try_add(m, "nobase(2)", "N OW", 1, 0, cd, OPNAME[op]);
    case OP_ADD_BADPHONE:
        return try_add(m, "bad", "Q Q", 1, 0, cd, OPNAME[op]);
    case OP_ADD_EMPTYWORD:
        return try_add(m, "", "G OW", 1, 0, cd, OPNAME[op]);
    case OP_ADD_EMPTYPRON:
        return try_add(m, "empt", "", 1, 0, cd, OPNAME[op]);
    case OP_ADD_WS: {
        /* decoder.h: "whitespace-separated list of phoneme strings" -- blanks, tabs and line ends around and between them */
        int r2 = try_add(m, "zws", " \tG  OW \r\n", 1, model_lookup(m, "zws") == NULL, cd, OPNAME[op]);
        if (r2 == 0 && m->nadded > 0 && strcmp(m->added[m->nadded - 1].word, "zws") == 0)
            m->added[m->nadded - 1].phones = "G OW"; /* what a lookup must return */
        return r2;
    }
    case OP_ADD_ONEPHONE:
        return try_add(m, "xoh", "OW", 1, model_lookup(m, "xoh") == NULL, cd, OPNAME[op]);
    case OP_ADD_MANY: {
        int k;
        for (k = 0; k < NMANY; k++) {
            char w[8];
            snprintf(w, sizeof w, "w%04d", k);
            rv = decoder_add_word(D, w, MANYPRON[k % 8], k == NMANY - 1);
            if (P_C16 && (rv >= 0) != !m->many) {
                mc_viol(m->many ? "C16/invalid-addition-accepted" : "C16/valid-addition-rejected", cd, "%s: decoder_add_word(\"%s\", \"%s\") returned %d", OPNAME[op], w,
                        MANYPRON[k % 8], rv);
                return -1;
            }
        }
        m->many = 1;
        break;
    }
    case OP_LOOKUP: {
        char *p = decoder_lookup_word(D, "go");
        ckd_free(p);
        p = decoder_lookup_word(D, "zzzz");
        ckd_free(p);
        break;
    }
    case OP_GETCMN0:
    case OP_GETCMN1:
        (void)decoder_get_cmn(D, op == OP_GETCMN1);
        break;
    case OP_SETCMN:
        rv = decoder_set_cmn(D, CMN_FIXED);
        return expect_ret(rv == 0, cd, "setcmn", sn, "0", rv);
    case OP_REINIT:
        rv = decoder_reinit(D, NULL);
        if (expect_ret(rv == 0, cd, "reinit", sn, "0", rv) < 0)
            return -1;
        m->has_search = 0; /* the configuration names no grammar */
        m->g1 = 0;
        m->many = 0;
        m->st = ST_IDLE;
        m->nadded = 0; /* the dictionary is read again from its file */
        break;
    case OP_FREE:
        decoder_free(D);
        D = NULL;
        m->freed = 1;
        break;
    }
    return 0;
}

/* ---------- C08: probe utterance and digest ---------- */
static void
digest(decoder_t *d, char *buf, size_t n)
{
    int32 sc = 0;
    const char *h = decoder_hyp(d, &sc);
    seg_iter_t *it;
    lattice_t *dag;
    hyp_iter_t *nb;
    size_t o;
    int k = 0;
    o = snprintf(buf, n, "hyp=%s score=%d frames=%d segs=", h ? h : "NULL", sc, decoder_n_frames(d));
    for (it = decoder_seg_iter(d); it; it = seg_iter_next(it)) {
        int sf, ef;
        int32 a, l;
        seg_iter_frames(it, &sf, &ef);
        seg_iter_prob(it, &a, &l);
        if (o + 64 < n)
            o += snprintf(buf + o, n - o, "[%s %d-%d %d %d]", seg_iter_word(it), sf, ef, a, l);
    }
    dag = decoder_lattice(d);
    if (dag) {
        latnode_t *nd;
        int nn = 0, nl = 0;
        long sum = 0;
        for (nd = dag->nodes; nd; nd = nd->next) {
            latlink_list_t *x;
            nn++;
            for (x = nd->exits; x; x = x->next) {
                nl++;
                sum += x->link->ascr;
            }
        }
        if (o + 64 < n)
            o += snprintf(buf + o, n - o, " lattice=%d/%d/%ld", nn, nl, sum);
    } else if (o + 16 < n)
        o += snprintf(buf + o, n - o, " lattice=none");
    for (nb = decoder_nbest(d); nb; nb = hyp_iter_next(nb)) {
        int32 s2;
        const char *hh = hyp_iter_hyp(nb, &s2);
        if (o + 96 < n)
            o += snprintf(buf + o, n - o, " nbest%d=%s/%d", k, hh ? hh : "NULL", s2);
        if (++k == 3) {
            hyp_iter_free(nb);
            break;
        }
    }
    /* the second-pass alignment of this utterance: words and phones with start, duration, score */
    {
        alignment_t *al = decoder_alignment(d);
        if (!al) {
            if (o + 16 < n)
                o += snprintf(buf + o, n - o, " align=none");
        } else {
            alignment_iter_t *wi, *pi;
            if (o + 16 < n)
                o += snprintf(buf + o, n - o, " align=");
            for (wi = alignment_words(al); wi; wi = alignment_iter_next(wi)) {
                int st, du;
                int sc2 = alignment_iter_seg(wi, &st, &du);
                if (o + 64 < n)
                    o += snprintf(buf + o, n - o, "{%s %d+%d %d", alignment_iter_name(wi), st, du, sc2);
                for (pi = alignment_iter_children(wi); pi; pi = alignment_iter_next(pi)) {
                    sc2 = alignment_iter_seg(pi, &st, &du);
                    if (o + 48 < n)
                        o += snprintf(buf + o, n - o, " %s:%d+%d:%d", alignment_iter_name(pi), st, du, sc2);
                }
                if (o + 2 < n)
                    o += snprintf(buf + o, n - o, "}");
            }
        }
    }
}

/* streaming probe (channel normalisation reset first) and batch probe (no reset needed) */
static int
stream_blocks(decoder_t *d, int16 *aud, size_t len)
{
    size_t pos;
    for (pos = 0; pos < len; pos += 256)
        if (decoder_process_int16(d, aud + pos, len - pos < 256 ? len - pos : 256, 0, 0) < 0)
            return -1;
    return 0;
}

static int BIGPROBE; /* --bigprobe 1: the second probe order ends with the whole recording streamed in two calls */
static char REF_STREAM[DIGN], REF_BATCH[DIGN], REF_SHORT[DIGN];
static char REF2_STREAM[DIGN], REF2_BATCH[DIGN]; /* --two 2: the differently configured neighbour, alone */
/* The probe comes in two orders, because whatever runs first meets the state the history left and overwrites it for
 * what follows.  Each order runs on its own copy of the process (fork) and is compared with the same order on a fresh
 * decoder.
 *   probe():       whole-utterance (batch) decodes first, WITHOUT any reset; then streaming after a full reset
 *   probe_short(): the normalisation state reset through a SHORT list first, then two streamed utterances in a row */
static int
probe(decoder_t *d, char *dstream, char *dbatch, size_t n, int setgram)
{
    static char qa[DIGN];
    /* the probe grammar is loaded only when the history left another one: loading a grammar creates a new search
     * object and would hide whatever the old one carried over from its last utterance */
    if (setgram && decoder_set_jsgf_string(d, G1) < 0)
        return -1;
    /* FIRST a whole-utterance decode whose LENGTH equals that of the history's main utterance (procA) but whose content
     * differs: anything cached per frame count (the second-pass aligner, say) shows here, before another query replaces it */
    if (decoder_start_utt(d) < 0 || decoder_process_int16(d, AUD_QA, N_A, 0, 1) < 0 || decoder_end_utt(d) < 0)
        return -9;
    digest(d, qa, sizeof qa);
    /* batch mode, straight after the history and WITHOUT resetting channel normalisation */
    if (decoder_start_utt(d) < 0)
        return -6;
    if (decoder_process_int16(d, AUD_P, N_P, 0, 1) < 0)
        return -7;
    if (decoder_end_utt(d) < 0)
        return -8;
    digest(d, dbatch, n);
    {
        size_t l = strlen(dbatch);
        if (l + 8 < n)
            l += snprintf(dbatch + l, n - l, " || QA: %s", qa);
        /* the same for the length of procB */
        if (decoder_start_utt(d) < 0 || decoder_process_int16(d, AUD_QB, N_B, 0, 1) < 0 || decoder_end_utt(d) < 0)
            return -10;
        if (l + 8 < n) {
            l += snprintf(dbatch + l, n - l, " || QB: ");
            digest(d, dbatch + l, n - l);
        }
    }
    /* streaming mode with the channel normalisation state set to a fixed value; the audio arrives in 256-sample blocks
     * (less than one analysis window: the first call completes no frame) */
    if (decoder_set_cmn(d, CMN_FIXED) < 0)
        return -2;
    if (decoder_start_utt(d) < 0)
        return -3;
    if (stream_blocks(d, AUD_P, N_P) < 0)
        return -4;
    if (decoder_end_utt(d) < 0)
        return -5;
    digest(d, dstream, n);
    return 0;
}

static int
probe_short(decoder_t *d, char *out, size_t n, int setgram)
{
    size_t l = 0;
    const char *rep;
    if (setgram && decoder_set_jsgf_string(d, G1) < 0)
        return -1;
    /* unlisted coefficients count as zero; what the history accumulated must be gone all the same */
    if (decoder_set_cmn(d, "40,3,-1") < 0)
        return -11;
    if (decoder_start_utt(d) < 0 || stream_blocks(d, AUD_QA, N_A) < 0 || decoder_end_utt(d) < 0)
        return -12;
    l += snprintf(out + l, n - l, "SA: ");
    digest(d, out + l, n - l);
    l = strlen(out);
    if (decoder_start_utt(d) < 0 || stream_blocks(d, AUD_QB, N_B) < 0 || decoder_end_utt(d) < 0)
        return -13;
    if (l + 8 < n) {
        l += snprintf(out + l, n - l, " || SB: ");
        digest(d, out + l, n - l);
        l = strlen(out);
    }
    rep = decoder_get_cmn(d, 0);
    if (l + 8 < n)
        l += snprintf(out + l, n - l, " || cmn: %s", rep ? rep : "NULL");
    /* the whole recording streamed in TWO calls, a short one and a very long one (more frames than any of the decoder's rings holds
     * on a fresh decoder), normalisation fixed */
    if (!BIGPROBE)
        return 0;
    if (decoder_set_cmn(d, CMN_FIXED) < 0 || decoder_start_utt(d) < 0 || decoder_process_int16(d, AUD_ALL, 2048, 0, 0) < 0
        || decoder_process_int16(d, AUD_ALL + 2048, N_ALL - 2048, 0, 0) < 0 || decoder_end_utt(d) < 0)
        return -14;
    if (l + 8 < n) {
        l += snprintf(out + l, n - l, " || BIG: ");
        digest(d, out + l, n - l);
    }
    return 0;
}

/* probe_short on a copy of this process; the digest comes back through shared memory.  Returns 0, or -1 with *why set */
static char *SHARED_DIG; /* DIGN bytes, MAP_SHARED */
static int
forked_probe_short(decoder_t *d, int setgram, char *out, size_t n, const char **why)
{
    pid_t pid;
    int st;
    if (!SHARED_DIG)
        SHARED_DIG = mmap(NULL, DIGN, PROT_READ | PROT_WRITE, MAP_SHARED | MAP_ANONYMOUS, -1, 0);
    SHARED_DIG[0] = 0;
    fflush(mc_fp);
    fflush(stderr);
    {
        int tries;
        for (tries = 0; (pid = fork()) < 0 && tries < 20; tries++)
            usleep(200000); /* the machine is out of processes for a moment: wait, never call that a violation */
    }
    if (pid < 0) {
        mc_count(0, 1);
        snprintf(out, n, "%s", REF_SHORT); /* this order of the probe is skipped for this history (counted) */
        return 0;
    }
    if (pid == 0) {
        static char buf[DIGN];
        int rc = probe_short(d, buf, sizeof buf, setgram);
        if (rc < 0)
            snprintf(SHARED_DIG, DIGN, "(probe failed at step %d)", -rc);
        else
            snprintf(SHARED_DIG, DIGN, "%s", buf);
        _exit(0);
    }
    if (waitpid(pid, &st, 0) < 0) {
        mc_count(0, 1);
        snprintf(out, n, "%s", REF_SHORT);
        return 0;
    }
    if (!WIFEXITED(st) || WEXITSTATUS(st) != 0) {
        *why = "the process died during the probe";
        return -1;
    }
    snprintf(out, n, "%s", SHARED_DIG);
    return 0;
}


/* C16: a word added at run time must behave exactly like the same word read from the dictionary file */
#define NADDABLE 4
static const char *const ADDABLE[NADDABLE][3] = { { "zed", "Z EH D", "zed" }, { "zed2", "Z EH D Z", "zed2" }, { "go(2)", "G AH", "go" },
                                                 { "xoh", "OW", "xoh" } }; /* word, phones, JSGF token */
static char REF_ADDED[NADDABLE][DIGN];
static int
decode_with_word(decoder_t *d, int k, char *buf, size_t n)
{
    char g[256];
    snprintf(g, sizeof g, "#JSGF V1.0; grammar x; public <s> = go %s;", ADDABLE[k][2]);
    if (decoder_set_jsgf_string(d, g) < 0 || decoder_start_utt(d) < 0 || decoder_process_int16(d, AUD_A, N_A, 0, 1) < 0 || decoder_end_utt(d) < 0)
        return -1;
    digest(d, buf, n);
    return 0;
}
static size_t BASELINE_ALLOC;
static int HAVE_BASELINE;

#if defined(__SANITIZE_ADDRESS__)
int __lsan_do_recoverable_leak_check(void);
#endif
/* first library function in the allocation stack of the first reported leak */
static void
leak_site(char *site, size_t n)
{
#if defined(__SANITIZE_ADDRESS__)
    char path[600], line[1024];
    FILE *fp;
    int fd, saved;
    snprintf(path, sizeof path, "%s.leak.%d", getenv("MC_OUT") ? getenv("MC_OUT") : "/var/tmp/mc_session", (int)getpid());
    fflush(stderr);
    saved = dup(2);
    fd = open(path, O_WRONLY | O_CREAT | O_TRUNC, 0644);
    if (fd < 0)
        return;
    dup2(fd, 2);
    close(fd);
    __lsan_do_recoverable_leak_check();
    fflush(stderr);
    dup2(saved, 2);
    close(saved);
    fp = fopen(path, "r");
    if (fp) {
        while (fgets(line, sizeof line, fp)) {
            char fn[96];
            const char *p = strstr(line, " in ");
            if (p && strstr(line, "/src/") && !strstr(line, "libsanitizer") && !strstr(line, "ckd_alloc.c") && !strstr(line, "glist.c") && sscanf(p, " in %95s", fn) == 1) {
                snprintf(site, n, "%s", fn);
                break;
            }
        }
        fclose(fp);
    }
    unlink(path);
#else
    (void)site;
    (void)n;
#endif
}

/* ---------- one history ---------- */
#define MAXLEN 8
typedef struct {
    int n, op[MAXLEN];
} hist_t;

static void
hist_desc(const hist_t *h, char *buf, size_t n)
{
    size_t o = 0;
    int i;
    buf[0] = 0;
    for (i = 0; i < h->n; i++)
        o += snprintf(buf + o, n - o, "%s%s", i ? " " : "", OPNAME[h->op[i]]);
    if (!h->n)
        snprintf(buf, n, "(empty)");
}

static long long CUR_IDX;
static int
run_hist(const hist_t *h)
{
    model_t m;
    char cd[512], ds[DIGN], db[DIGN];
    int i, rc = 0, nontrivial = 0;
    long long v0 = mc_nviol;
    hist_desc(h, cd, sizeof cd);
    mc_case_begin(CUR_IDX, cd);
    memset(&m, 0, sizeof m);
    m.st = ST_IDLE;
    m.has_search = !NOGRAM;
    m.g1 = !NOGRAM;
    decoder_t *d2 = NULL;
    int step2 = 0;
    if (TWO) {
        OTHER_CONFIG = TWO == 2;
        d2 = make_decoder();
        OTHER_CONFIG = 0;
    }
    for (i = 0; i < h->n; i++) {
        if (d2) {
            /* the other decoder's own activity, one step between any two operations */
            switch (step2++ % 4) {
            case 0: decoder_start_utt(d2); break;
            case 1: decoder_process_int16(d2, AUD_B, N_B, 0, 0); break;
            case 2: decoder_end_utt(d2); break;
            default: { int32 sc; (void)decoder_hyp(d2, &sc); (void)decoder_lattice(d2); }
            }
        }
        rc = apply_op(&m, h->op[i], cd);
        if (rc == 1)
            return 0; /* history leaves the documented protocol: not a case */
        if (rc < 0)
            goto out;
        if (P_C16 && !m.freed && check_dict(&m, cd, OPNAME[h->op[i]]) < 0)
            goto out;
        if (h->op[i] == OP_END || h->op[i] >= OP_SET_BAD)
            nontrivial = 1;
    }
    if (!m.freed) {
        if (m.st == ST_ACTIVE && decoder_end_utt(D) < 0) {
            mc_viol("C09/return-value:end:in-utterance", cd, "closing the open utterance failed");
            goto out;
        }
        /* accepted words are usable at once */
        if (P_C16 && m.many) {
            m.g1 = 0;
            if (decoder_set_align_text(D, "go w4199 w0000") < 0 || decoder_set_jsgf_string(D, "#JSGF V1.0; grammar x; public <s> = go w4096 | w2047 ten;") < 0) {
                mc_viol("C16/added-word-not-usable", cd, "the generated words were added successfully but a grammar or alignment text using them is refused");
                goto out;
            }
        }
        if (P_C16)
            for (i = 0; i < m.nadded; i++) {
                char g[256];
                m.g1 = 0;
                /* a numbered alternate is not a JSGF token; it is used through its base word */
                snprintf(g, sizeof g, "#JSGF V1.0; grammar x; public <s> = go %s;", strchr(m.added[i].word, '(') ? "go" : m.added[i].word);
                if (decoder_set_align_text(D, m.added[i].word) < 0 || decoder_set_jsgf_string(D, g) < 0) {
                    mc_viol("C16/added-word-not-usable", cd, "word %s was added successfully but a grammar or alignment text using it is refused", m.added[i].word);
                    goto out;
                }
                {
                    int wid = dict_wordid(D->dict, m.added[i].word);
                    char base[64];
                    snprintf(base, sizeof base, "%s", m.added[i].word);
                    if (strchr(base, '('))
                        *strchr(base, '(') = 0;
                    if (wid < 0 || strcmp(dict_basestr(D->dict, wid), base) != 0) {
                        mc_viol("C16/alternate-not-under-base-spelling", cd, "word %s reports base spelling %s", m.added[i].word,
                                wid >= 0 ? dict_basestr(D->dict, wid) : "(missing)");
                        goto out;
                    }
                }
                /* ... and it decodes exactly as the same word read from a dictionary file does (only when it is the only
                 * addition: the reference dictionaries hold one extra word each) */
                if (m.nadded == 1) {
                    int k;
                    static char got[DIGN];
                    for (k = 0; k < NADDABLE; k++)
                        if (strcmp(ADDABLE[k][0], m.added[i].word) == 0) {
                            if (decode_with_word(D, k, got, sizeof got) < 0) {
                                mc_viol("C16/added-word-not-usable", cd, "decoding with the added word %s failed", m.added[i].word);
                                goto out;
                            }
                            if (strcmp(got, REF_ADDED[k]) != 0) {
                                size_t z = 0;
                                while (got[z] && got[z] == REF_ADDED[k][z])
                                    z++;
                                z = z > 80 ? z - 80 : 0;
                                mc_viol("C16/added-word-decodes-differently-from-the-same-word-in-the-dictionary-file", cd,
                                        "word %s added at run time: ...%.300s | read from the file: ...%.300s", m.added[i].word, got + z, REF_ADDED[k] + z);
                                goto out;
                            }
                        }
                }
            }
        if (P_C08) {
            /* with dictionary additions the grammar is always loaded again, on both sides: a loaded grammar keeps the alternates it
             * was built with, so the order of additions and loads would otherwise have to be replayed on the reference */
            if (m.nadded == 0) {
                /* the second probe order, on a copy of the process, before the first one touches anything */
                static char dshort[DIGN];
                const char *why = NULL;
                if (forked_probe_short(D, !m.g1, dshort, sizeof dshort, &why) < 0) {
                    mc_viol("C08/decoder-unusable-after-history", cd, "probe after a short reset: %s", why);
                    goto out;
                }
                if (strcmp(dshort, REF_SHORT) != 0) {
                    size_t z = 0;
                    while (dshort[z] && dshort[z] == REF_SHORT[z])
                        z++;
                    z = z > 100 ? z - 100 : 0;
                    mc_viol("C08/streaming-result-after-a-reset-depends-on-history", cd,
                            "normalisation reset with a short list, then two streamed utterances: ...%.400s | fresh decoder: ...%.400s", dshort + z, REF_SHORT + z);
                    goto out;
                }
            }
            rc = probe(D, ds, db, sizeof ds, m.nadded > 0 || !m.g1);
            if (rc < 0) {
                mc_viol("C08/decoder-unusable-after-history", cd, "the probe utterance failed at step %d after this history", -rc);
                goto out;
            }
            if (m.nadded == 0) {
                if (strcmp(ds, REF_STREAM) != 0) {
                    mc_viol("C08/streaming-result-depends-on-history", cd, "probe after the history: %s | fresh decoder: %s", ds, REF_STREAM);
                    goto out;
                }
                if (strcmp(db, REF_BATCH) != 0) {
                    mc_viol("C08/batch-result-depends-on-history", cd, "probe after the history: %s | fresh decoder: %s", db, REF_BATCH);
                    goto out;
                }
            } else {
                /* reference: a fresh decoder with the same dictionary additions */
                decoder_t *f = make_decoder();
                char fs[DIGN], fb[DIGN];
                for (i = 0; i < m.nadded; i++)
                    decoder_add_word(f, m.added[i].word, m.added[i].phones, 1);
                rc = probe(f, fs, fb, sizeof fs, 1);
                decoder_free(f);
                if (rc < 0 || strcmp(ds, fs) != 0 || strcmp(db, fb) != 0) {
                    mc_viol(strcmp(ds, fs) ? "C08/streaming-result-depends-on-history" : "C08/batch-result-depends-on-history", cd,
                            "probe after the history: %s | fresh decoder with the same additions: %s", strcmp(ds, fs) ? ds : db, strcmp(ds, fs) ? fs : fb);
                    goto out;
                }
            }
        }
        decoder_free(D);
        D = NULL;
    }
    if (d2) {
        char s2[DIGN], b2[DIGN];
        if ((step2 % 4) == 1 || (step2 % 4) == 2)
            decoder_end_utt(d2);
        rc = probe(d2, s2, b2, sizeof s2, NOGRAM);
        const char *rs = TWO == 2 ? REF2_STREAM : REF_STREAM, *rb = TWO == 2 ? REF2_BATCH : REF_BATCH;
        if (P_C08 && (rc < 0 || strcmp(s2, rs) != 0 || strcmp(b2, rb) != 0)) {
            mc_viol("C08/second-decoder-influenced", cd, "a second decoder used between these operations gives %s | alone: %s", rc < 0 ? "(probe failed)" : strcmp(s2, rs) ? s2 : b2,
                    strcmp(s2, rs) ? rs : rb);
            decoder_free(d2);
            goto out;
        }
        decoder_free(d2);
    }
    if (P_C09 && HAVE_BASELINE && MC_ALLOCATED() != BASELINE_ALLOC) {
        /* stage 2: ask the leak checker where the surviving blocks were allocated */
        char sig[160], site[96] = "unknown-site";
        long bytes = (long)(MC_ALLOCATED() - BASELINE_ALLOC);
        leak_site(site, sizeof site);
        snprintf(sig, sizeof sig, "C09/leak@%s", site);
        mc_viol(sig, cd, "%ld bytes are still allocated after the last reference was released (allocated in %s)", bytes, site);
        goto out;
    }
out:
    return mc_nviol != v0 ? -1 : nontrivial;
}

/* ---------- enumeration ---------- */
static int SET_N = NOPS, MAXL = 2;
static int SETMAP[NOPS];

static long long
count_upto(int len)
{
    long long c = 0, k = 1;
    int i;
    for (i = 1; i <= len; i++) {
        k *= SET_N;
        c += k;
    }
    return c + 1;
}

static void
hist_at(long long idx, hist_t *h)
{
    long long c = 1, k = 1;
    int len = 0, i;
    h->n = 0;
    if (idx == 0)
        return;
    idx -= 1;
    for (len = 1;; len++) {
        k *= SET_N;
        if (idx < k)
            break;
        idx -= k;
    }
    (void)c;
    h->n = len;
    for (i = len - 1; i >= 0; i--) {
        h->op[i] = SETMAP[idx % SET_N];
        idx /= SET_N;
    }
}

static int
run_index(long long idx, void *arg)
{
    hist_t h;
    (void)arg;
    CUR_IDX = idx;
    hist_at(idx, &h);
    return run_hist(&h);
}

int
main(int argc, char **argv)
{
    const char *cas = mc_arg(argc, argv, "--case", NULL);
    const char *set = mc_arg(argc, argv, "--set", "all");
    const char *props = mc_arg(argc, argv, "--props", "C08,C09,C16");
    int shard = 0, nshard = 1, i, complete;
    long long total;
    mc_init();
    mc_install_crash_hooks();
    err_set_loglevel(ERR_FATAL);
    P_C08 = strstr(props, "C08") != NULL;
    P_C09 = strstr(props, "C09") != NULL;
    P_C16 = strstr(props, "C16") != NULL;
    sscanf(mc_arg(argc, argv, "--shard", "0/1"), "%d/%d", &shard, &nshard);
    MAXL = atoi(mc_arg(argc, argv, "--len", "2"));
    TWO = atoi(mc_arg(argc, argv, "--two", "0"));
    MAXHMMPF = atoi(mc_arg(argc, argv, "--maxhmmpf", "0"));
    NOGRAM = atoi(mc_arg(argc, argv, "--nogram", "0"));
    CFGOPTS = mc_arg(argc, argv, "--cfg", "");
    DICTCASE = strstr(CFGOPTS, "dictcase=yes") != NULL;
    BIGPROBE = atoi(mc_arg(argc, argv, "--bigprobe", "0"));
    if (strcmp(set, "proto") == 0)
        SET_N = N_PROTO;
    else if (strcmp(set, "core") == 0)
        SET_N = N_CORE;
    else if (strcmp(set, "dict") == 0) {
        /* dictionary operations plus what is needed to use the words */
        static const int ops[] = { OP_ADD_NEW, OP_ADD_ALT, OP_ADD_DUP, OP_ADD_ALT_NOBASE, OP_ADD_BADPHONE, OP_ADD_EMPTYWORD, OP_ADD_EMPTYPRON, OP_ADD_NEW_NOUPDATE,
                                   OP_ADD_ALT_DUP, OP_LOOKUP, OP_SET_G2, OP_ALIGN_T1, OP_START, OP_PROC_A, OP_END, OP_REINIT, OP_ADD_MANY, OP_ADD_ONEPHONE, OP_ADD_WS };
        SET_N = (int)(sizeof ops / sizeof *ops);
        for (i = 0; i < SET_N; i++)
            SETMAP[i] = ops[i];
    }
    else if (strcmp(set, "lat") == 0) {
        /* an utterance and everything that is built from its result */
        static const int ops[] = { OP_START, OP_PROC_A, OP_PROC_ALL, OP_END, OP_LATTICE, OP_NBEST3, OP_HYP, OP_ALIGN, OP_FREE };
        SET_N = (int)(sizeof ops / sizeof *ops);
        for (i = 0; i < SET_N; i++)
            SETMAP[i] = ops[i];
    } else if (strcmp(set, "batchstream") == 0) {
        /* whole-utterance and streaming calls of the whole recording mixed on one decoder (what one call sizes, the next inherits) */
        static const int ops[] = { OP_START, OP_PROC_ALL_FULL, OP_PROC_ALL, OP_END, OP_SETCMN, OP_PROC_A, OP_HYP };
        int small = strcmp(mc_arg(argc, argv, "--batchstream-ops", "7"), "5") == 0;
        SET_N = small ? 5 : (int)(sizeof ops / sizeof *ops);
        for (i = 0; i < SET_N; i++)
            SETMAP[i] = ops[i];
    } else if (strcmp(set, "boot") == 0) {
        /* what a decoder goes through on its way to its first utterance */
        static const int ops[] = { OP_START, OP_PROC_A, OP_END, OP_HYP, OP_SET_G1, OP_ALIGN_T1, OP_LATTICE, OP_ALIGN, OP_REINIT, OP_FREE };
        SET_N = (int)(sizeof ops / sizeof *ops);
        for (i = 0; i < SET_N; i++)
            SETMAP[i] = ops[i];
    }
    if (strcmp(set, "dict") != 0 && strcmp(set, "boot") != 0 && strcmp(set, "lat") != 0 && strcmp(set, "batchstream") != 0)
        for (i = 0; i < SET_N; i++)
            SETMAP[i] = i;
    {
        const char *out = getenv("MC_OUT");
        FILE *fp;
        snprintf(DICT_PATH, sizeof DICT_PATH, "%s.%d.dic", out ? out : "/var/tmp/mc_session", (int)getpid());
        fp = fopen(DICT_PATH, "w");
        fputs(DICT_TEXT, fp);
        fclose(fp);
    }
    load_audio();
    if (mc_arg(argc, argv, "--synth", NULL)) {
        const char *sc = mc_arg(argc, argv, "--synth", "semi"), *out = getenv("MC_OUT");
        snprintf(SYNTH_DIR, sizeof SYNTH_DIR, "%s.%d.model", out ? out : "/var/tmp/mc_session", (int)getpid());
        rm_model(SYNTH_DIR);
        if (gen_model(SYNTH_DIR, sc) < 0) {
            fprintf(stderr, "cannot write the synthetic model in %s\n", SYNTH_DIR);
            return 2;
        }
        SYNTH_MS = strcmp(sc, "ms") == 0;
        atexit(synth_cleanup);
    }
    /* reference digests from a fresh decoder, which is then released */
    if (TWO == 2) {
        /* The reference digests come from a process in which NO other decoder has ever existed (a forked copy made before anything was
         * decoded here); then the differently configured neighbour is created in this process and decodes FIRST. */
        char *sh = mmap(NULL, 5 * DIGN, PROT_READ | PROT_WRITE, MAP_SHARED | MAP_ANONYMOUS, -1, 0);
        pid_t pid;
        int st = 0;
        decoder_t *o;
        sh[0] = 0;
        fflush(NULL);
        pid = fork();
        if (pid == 0) {
            decoder_t *f = make_decoder();
            int rc = probe(f, sh, sh + DIGN, DIGN, NOGRAM);
            decoder_free(f);
            if (rc >= 0) {
                f = make_decoder();
                rc = probe_short(f, sh + 2 * DIGN, DIGN, NOGRAM);
                decoder_free(f);
            }
            if (rc >= 0) {
                OTHER_CONFIG = 1;
                f = make_decoder();
                OTHER_CONFIG = 0;
                rc = probe(f, sh + 3 * DIGN, sh + 4 * DIGN, DIGN, NOGRAM);
                decoder_free(f);
            }
            _exit(rc < 0 ? 3 : 0);
        }
        if (pid < 0 || waitpid(pid, &st, 0) < 0 || !WIFEXITED(st) || WEXITSTATUS(st) != 0) {
            fprintf(stderr, "reference process failed\n");
            return 2;
        }
        memcpy(REF_STREAM, sh, DIGN);
        memcpy(REF_BATCH, sh + DIGN, DIGN);
        memcpy(REF_SHORT, sh + 2 * DIGN, DIGN);
        memcpy(REF2_STREAM, sh + 3 * DIGN, DIGN);
        memcpy(REF2_BATCH, sh + 4 * DIGN, DIGN);
        munmap(sh, 5 * DIGN);
        OTHER_CONFIG = 1;
        o = make_decoder();
        OTHER_CONFIG = 0;
        if (decoder_start_utt(o) < 0 || decoder_process_int16(o, AUD_ALL, N_ALL, 0, 0) < 0 || decoder_end_utt(o) < 0)
            return 2;
        decoder_free(o);
    } else {
        decoder_t *f = make_decoder();
        int rc = probe(f, REF_STREAM, REF_BATCH, sizeof REF_STREAM, NOGRAM);
        decoder_free(f);
        if (rc >= 0) {
            f = make_decoder();
            rc = probe_short(f, REF_SHORT, sizeof REF_SHORT, NOGRAM);
            decoder_free(f);
        }
        if (rc < 0) {
            fprintf(stderr, "probe failed on a fresh decoder (%d)\n", rc);
            return 2;
        }
    }
    if (P_C16) {
        /* one reference decoder per addable word, its dictionary FILE holding the base dictionary plus that word */
        int k;
        for (k = 0; k < NADDABLE; k++) {
            char saved[sizeof DICT_PATH];
            decoder_t *f;
            FILE *fp;
            memcpy(saved, DICT_PATH, sizeof saved);
            snprintf(DICT_PATH, sizeof DICT_PATH, "%s.ref%d", saved, k);
            fp = fopen(DICT_PATH, "w");
            fprintf(fp, "%s%s %s\n", DICT_TEXT, ADDABLE[k][0], ADDABLE[k][1]);
            fclose(fp);
            f = make_decoder();
            unlink(DICT_PATH);
            memcpy(DICT_PATH, saved, sizeof saved);
            if (decode_with_word(f, k, REF_ADDED[k], sizeof REF_ADDED[k]) < 0) {
                fprintf(stderr, "reference decode with %s failed\n", ADDABLE[k][0]);
                return 2;
            }
            decoder_free(f);
        }
    }
    fprintf(mc_fp, "{\"t\":\"note\",\"v\":\"warm\"}\n");
    fflush(mc_fp);
    /* what is allocated once every decoder is gone: the leak baseline (the parent decoder is created after it) */
    BASELINE_ALLOC = MC_ALLOCATED();
    HAVE_BASELINE = 1;
    D = make_decoder();
    if (cas) {
        hist_t h;
        char tok[64];
        const char *p = cas;
        h.n = 0;
        while (*p && strcmp(cas, "(empty)") != 0) {
            int l = 0, k;
            while (*p == ' ')
                p++;
            while (*p && *p != ' ' && l < 63)
                tok[l++] = *p++;
            tok[l] = 0;
            if (!l)
                break;
            for (k = 0; k < NOPS; k++)
                if (strcmp(OPNAME[k], tok) == 0)
                    break;
            if (k == NOPS || h.n == MAXLEN)
                return 2;
            h.op[h.n++] = k;
        }
        CUR_IDX = 0;
        run_hist(&h);
        unlink(DICT_PATH);
        mc_finish();
        return 0;
    }
    total = count_upto(MAXL);
    mc_sample("operation set '%s' (%d operations), all histories up to length %d: %lld; probe = '%s' on goforward.raw (2.8 s); fresh-decoder reference: %s", set, SET_N,
              MAXL, total, G1, REF_STREAM);
    complete = mc_fork_loop(shard, total, nshard, 1, 120, run_index, NULL);
    unlink(DICT_PATH);
    mc_stat("evaluations", mc_sh ? mc_sh->evals : 0);
    mc_stat("nontrivial", mc_sh ? mc_sh->nontriv : 0);
    if (P_C08)
        mc_stat("second_probe_order_skipped_for_lack_of_processes", mc_sh ? mc_sh->counters[0] : 0);
    mc_flag("exhaustive", complete && !(mc_sh && mc_sh->counters[0]));
    mc_finish();
    return 0;
}
