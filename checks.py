"""Per-property check configuration for /verif/check (harness builds, runs per tier, evidence shape)."""

HARNESSES = {
    'mc_hash': dict(src=['mc_hash.c'], flavour='asan'),
}

TRUST = ['gcc 12 / AddressSanitizer / UBSan runtime', 'the reference model in the harness source',
         'library objects compiled from /repo working tree by tools/build_lib.sh (gcc -O1, asserts on)']


def mc_cov(stats, maxes, flags, tier):
    return dict(states=stats.get('states', 0), transitions=stats.get('transitions', 0),
                traces_validated_against_impl=stats.get('transitions', 0),
                max_depth=maxes.get('max_depth', 0))


def _hash_runs(n):
    return [dict(h='mc_hash', label='hash-%s-%dkeys' % (m, n), args=['--mode', m, '--nkeys', str(n)])
            for m in ('cs', 'nocase', 'bin')]


CHECKS = {
    'C20': dict(
        title='hash table is a map under any operation history',
        level='model_checking',
        runs={'quick': _hash_runs(6), 'thorough': _hash_runs(6) + _hash_runs(8)},
        budget_s={'quick': 120, 'thorough': 900},
        coverage=mc_cov,
        rule='explicit-state BFS to fixpoint over operation histories {enter,replace x value 1|2, delete} x key + empty() '
             'replayed on a fresh real hash_table_t (101 buckets); keys chosen by probing the real table so that >=3 '
             'distinct keys share one bucket, incl. prefix-related, case-variant, empty and embedded-NUL binary keys; '
             'state = bucket chains in order (key identity, len, val) + inuse; after every transition return value, '
             'lookup of every key, inuse, one iterator walk and one tolist export are compared with an association-list model',
        assumptions=['string-key and binary-key APIs are not mixed on one table (the header calls bkey on nocase tables unpredictable)',
                     'values are the two non-NULL tokens 1 and 2; table size fixed at the smallest prime (101)'] + TRUST,
    ),
}
