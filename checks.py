"""Per-property check configuration for /verif/check (harness builds, runs per tier, evidence shape)."""

HARNESSES = {
    'mc_hash': dict(src=['mc_hash.c'], flavour='asan'),
    'mc_logmath': dict(src=['mc_logmath.c'], flavour='asan'),
    'mc_modelfault': dict(src=['mc_modelfault.c'], flavour='asan', ldflags=['-Wl,--wrap=s3file_map_file', '-Wl,--wrap=fopen']),
    'mc_parse': dict(src=['mc_parse.c'], flavour='asan'),
    'mc_chunk': dict(src=['mc_chunk.c'], flavour='asan', ldflags=['-Wl,--wrap=acmod_score']),
    'mc_session': dict(src=['mc_session.c'], flavour='asan'),
    'mc_decode': dict(src=['mc_decode.c'], flavour='asan', ldflags=['-Wl,--wrap=acmod_score']),
    'mc_jsgf': dict(src=['mc_jsgf.c'], flavour='asan', ldflags=['-Wl,--wrap=exit']),
    'mc_fsg': dict(src=['mc_fsg.c'], flavour='asan'),
    'mc_fe': dict(src=['mc_fe.c'], flavour='asan'),
    'mc_endpointer': dict(src=['mc_endpointer.c'], flavour='asan', ldflags=['-Wl,--wrap=vad_classify']),
    'mc_numeric': dict(src=['mc_numeric.c'], flavour='ovf', ldflags=['-Wl,--wrap=acmod_score']),
    'mc_hmm': dict(src=['mc_hmm.c'], flavour='ovf'),
    'mc_blkarray': dict(src=['mc_blkarray.c'], flavour='asan'),
}


def _blk_runs(prop):
    """the block array of the search history driven directly (harness/mc_blkarray.c)"""
    if prop == 'C02':
        return [dict(h='mc_blkarray', label='blkarray-default-geometry-2M-appends', args=['--appends', '2000000'])]
    return [dict(h='mc_blkarray', label='blkarray-%s' % g, args=['--geom', g]) for g in ('3x2', '2x3', '4x1', '1x4', '5x3')]


def _hmm_runs(regime, tier):
    """the HMM evaluator driven directly (harness/mc_hmm.c): regime A = one-step reference Viterbi far from the floor (C02),
    regime B = floor/wrap-around closure from the cleared object and from states just above WORST_SCORE (C18)"""
    r = []
    q = tier == 'quick'
    for n in (3, 5, 1, 2, 4):
        tmats = range(6) if n in (3, 5) else range(4)
        for t in tmats:
            if regime == 'A':
                d = (4 if q else 5) if n != 5 else (4 if q else 5)
                r.append(dict(h='mc_hmm', label='hmm-optimum-%dst-tmat%d' % (n, t), args=['--regime', 'A', '--nst', str(n), '--tmat', str(t), '--depth', str(d)]))
            else:
                if q and t > 1 and n != 3:
                    continue
                for i in range(4):
                    d = 2 if (q or n == 5) else 3
                    r.append(dict(h='mc_hmm', label='hmm-floor-%dst-tmat%d-init%d' % (n, t, i),
                                  args=['--regime', 'B', '--nst', str(n), '--tmat', str(t), '--init', str(i), '--depth', str(d)]))
    return r

TRUST = ['gcc 12 / AddressSanitizer / UBSan runtime', 'the reference model in the harness source',
         'library objects compiled from /repo working tree by tools/build_lib.sh (gcc -O1, asserts on)']


def mc_cov(stats, maxes, flags, tier):
    return dict(states=stats.get('states', 0), transitions=stats.get('transitions', 0),
                traces_validated_against_impl=stats.get('transitions', 0),
                max_depth=maxes.get('max_depth', 0))


def _hash_runs(n):
    return [dict(h='mc_hash', label='hash-%s-%dkeys' % (m, n), args=['--mode', m, '--nkeys', str(n)])
            for m in ('cs', 'nocase', 'bin')] + [
        # binary keys longer than 32 bytes; non-letters differing in bit 5 in a case-insensitive table (each pair searched into one bucket)
        dict(h='mc_hash', label='hash-%s' % m, args=['--mode', m, '--nkeys', '7']) for m in ('binlong', 'nocasepunct')]


def ex_cov(stats, maxes, flags, tier):
    return dict(evaluations=stats.get('evaluations', 0), distinct_nontrivial=stats.get('nontrivial', 0))


def _lm_runs(bases, shifts):
    return [dict(h='mc_logmath', label='logmath-b%s-s%d' % (b, s), args=['--base', b, '--shift', str(s)])
            for b in bases for s in shifts]


def _lm_edge_runs(tier):
    # bases 2^(1/K) whose largest table entry sits below, on and above a change of the entry width (256; 65536 in the thorough tier),
    # also through a shift; and objects without a table (conversions and reported parameters only)
    r = []
    ks = [('255.2', 0), ('256.2', 0), ('257.2', 0), ('2041', 3), ('2049', 3), ('2057', 3)]
    if tier == 'thorough':
        ks += [('65535.2', 0), ('65536.2', 0), ('65537.2', 0)]
    for k, sh in ks:
        r.append(dict(h='mc_logmath', label='logmath-pow2-%s-s%d' % (k, sh), args=['--base', 'pow2:' + k, '--shift', str(sh)]))
    for b, sh in (('1.0001', 0), ('1.0001', 8), ('1.003', 4)) + ((('1.0001', 10), ('1.1', 1)) if tier == 'thorough' else ()):
        r.append(dict(h='mc_logmath', label='logmath-notable-b%s-s%d' % (b, sh), args=['--base', b, '--shift', str(sh), '--table', '0']))
    return r


def _ep_runs(maxwin, nlong):
    r = [dict(h='mc_endpointer', label='endpointer-grid-shard%d' % i,
              args=['--grid', '1', '--maxwin', str(maxwin), '--shard', '%d/14' % i]) for i in range(14)]
    r.append(dict(h='mc_endpointer', label='endpointer-long-default', args=['--long', str(nlong)]))
    r.append(dict(h='mc_endpointer', label='endpointer-long-w0.18-r0.5',
                  args=['--long', str(nlong), '--window', '0.18', '--ratio', '0.5', '--flen', '0.03', '--rate', '11025']))
    return r


def _fe_runs(tier):
    r = []
    geoms = ['4x8', '3x7', '4x4', '2x9'] + (['5x13', '2x2', '3x4'] if tier == 'thorough' else [])
    for g in geoms:
        for e in ('int16', 'float'):
            r.append(dict(h='mc_fe', label='fe-%s-%s-allopts' % (g, e), args=['--geom', g, '--opts', 'all', '--enc', e]))
    # input_endian different from the host: the explored front ends read byte-swapped input, the reference the native signal
    for g in (['4x8', '3x7'] if tier == 'quick' else geoms):
        for e in ('int16', 'float'):
            r.append(dict(h='mc_fe', label='fe-%s-%s-bigendian' % (g, e), args=['--geom', g, '--opts', 'all', '--enc', e, '--endian', 'big']))
    # a second utterance on the SAME front end after fe_start, same signal, same reference
    for g in (['4x8'] if tier == 'quick' else geoms):
        for e in ('int16', 'float'):
            r.append(dict(h='mc_fe', label='fe-%s-%s-two-utterances' % (g, e), args=['--geom', g, '--opts', 'all', '--enc', e, '--utts', '2']))
    r.append(dict(h='mc_fe', label='fe-real-int16-bigendian', args=['--geom', 'real', '--opts', '0', '--enc', 'int16', '--endian', 'big']))
    r.append(dict(h='mc_fe', label='fe-real-int16', args=['--geom', 'real', '--opts', '0', '--enc', 'int16']))
    r.append(dict(h='mc_fe', label='fe-big-calls', args=['--big']))
    if tier == 'thorough':
        r.append(dict(h='mc_fe', label='fe-real-float', args=['--geom', 'real', '--opts', '0', '--enc', 'float']))
        for o in (1, 3, 4, 8, 16, 32, 64, 128, 63):
            r.append(dict(h='mc_fe', label='fe-real-int16-opts%d' % o, args=['--geom', 'real', '--opts', str(o), '--enc', 'int16']))
        for g in ('4x8', '2x9', '3x7'):
            r.append(dict(h='mc_fe', label='fe-%s-long' % g, args=['--geom', g, '--opts', 'all', '--enc', 'int16', '--nmax', '70']))
    return r


def _fsg_runs(tier):
    eps = [dict(h='mc_fsg', label='fsg-eps4-shard%d' % i, args=['--family', 'eps4', '--shard', '%d/16' % i]) for i in range(16)]
    # vocabularies that outgrow their first allocations: 5..70 real words x 0..30 alternates x fillers added before/after
    eps.append(dict(h='mc_fsg', label='fsg-bigvocab', args=['--family', 'bigvocab']))
    if tier == 'quick':
        return [dict(h='mc_fsg', label='fsg-3states-3arcs-shard%d' % i, args=['--states', '3', '--arcs', '3', '--shard', '%d/16' % i])
                for i in range(16)] + eps
    return (eps + [dict(h='mc_fsg', label='fsg-3states-4arcs-shard%d' % i, args=['--states', '3', '--arcs', '4', '--shard', '%d/32' % i])
             for i in range(32)]
            + [dict(h='mc_fsg', label='fsg-4states-3arcs-shard%d' % i, args=['--states', '4', '--arcs', '3', '--shard', '%d/16' % i])
               for i in range(16)])


def _jsgf_runs(tier, extra=()):
    if tier == 'quick':
        spaces = [['--s1', '4', '--s2', '3,3', '--s3', '3,1,1']]
        n = 16
    else:
        spaces = [['--s1', '5', '--s2', '4,3', '--s3', '3,2,2']]
        n = 48
    return [dict(h='mc_jsgf', label='jsgf-%s-shard%d' % ('-'.join(sp[1::2]), i), args=sp + list(extra) + ['--shard', '%d/%d' % (i, n)])
            for sp in spaces for i in range(n)] + [
        # grammar files that import rules from each other: 4 importer bodies x 3 local rules x 4 imported bodies x 3 private rules x 2 import forms
        dict(h='mc_jsgf', label='jsgf-import-files', args=['--imports'])]


SYM3 = 'SIL,AH,G,OW,N,_'
ALLROUTES = 'api,fsgtext,jsgf,aligntext'


def _dec_runs(props, specs, nshard=16):
    """specs: list of (label, extra args); each is sharded by grammar index"""
    r = []
    for spec in specs:
        label, extra = spec[0], spec[1]
        nshard = spec[2] if len(spec) > 2 else 16
        for i in range(nshard):
            r.append(dict(h='mc_decode', label='%s-shard%d' % (label, i),
                          args=['--props', props] + extra + ['--shard', '%d/%d' % (i, nshard)]))
    return r


def _c01_specs(tier):
    sp = []
    for conf in ('default', 'tight', 'open'):
        sp.append(('c01-%s-enum23' % conf, ['--conf', conf, '--gset', 'enum:2:3', '--words', 'a,go,no', '--syms', SYM3,
                                           '--segs', '2', '--routes', ALLROUTES]))
        sp.append(('c01-%s-hand' % conf, ['--conf', conf, '--gset', 'hand', '--syms', 'SIL,AH,G,OW,T,_', '--segs', '3',
                                         '--routes', 'api,fsgtext,jsgf']))
    sp.append(('c01-default-altword-enum22', ['--conf', 'default', '--gset', 'enum:2:2', '--words', 'a,go(2)', '--syms', 'SIL,AH,G,OW,_', '--segs', '2',
                                              '--routes', 'api,fsgtext,aligntext'], 8))
    if tier == 'thorough':
        for conf in ('default', 'tight', 'open'):
            sp.append(('c01-%s-enum33' % conf, ['--conf', conf, '--gset', 'enum:3:3', '--words', 'a,go,no', '--syms', SYM3,
                                               '--segs', '2', '--routes', ALLROUTES]))
            sp.append(('c01-%s-enum23-s3' % conf, ['--conf', conf, '--gset', 'enum:2:3', '--words', 'a,go,no', '--syms', SYM3,
                                                  '--segs', '3', '--routes', 'api,jsgf']))
            sp.append(('c01-%s-nofiller' % conf, ['--conf', conf, '--filler', '0', '--gset', 'enum:2:3', '--words', 'a,go,no',
                                                 '--syms', SYM3, '--segs', '2', '--routes', 'api,jsgf']))
    return sp


def _c03_specs(tier):
    sp = []
    for conf in ('default', 'open'):
        sp.append(('c03-%s-enum22-short' % conf, ['--conf', conf, '--gset', 'enum:2:2', '--words', 'a,go', '--probs', '1,0.5',
                                                 '--syms', 'SIL,AH,G,OW,_', '--segs', '2' if tier == 'quick' else '3', '--lens', '1,2,3',
                                                 '--routes', ALLROUTES]))
        sp.append(('c03-%s-enum22-s3' % conf, ['--conf', conf, '--gset', 'enum:2:2', '--words', 'a,go',
                                              '--syms', 'SIL,AH,G,OW,_', '--segs', '3', '--lens', '2,3', '--routes', 'api']))
        sp.append(('c03-%s-hand' % conf, ['--conf', conf, '--gset', 'hand', '--syms', 'SIL,AH,G,OW,T,_', '--segs', '3',
                                         '--routes', 'api,jsgf']))
    # a grammar that NAMES an alternate pronunciation itself (align text, FSG file and API can; JSGF cannot spell it)
    sp.append(('c03-default-altword-enum22', ['--conf', 'default', '--gset', 'enum:2:2', '--words', 'a,go(2)', '--syms', 'SIL,AH,G,OW,_', '--segs', '2',
                                              '--routes', 'api,fsgtext,aligntext'], 8))
    sp.append(('c03-tight-enum23', ['--conf', 'tight', '--gset', 'enum:2:3', '--words', 'a,go,no', '--syms', SYM3, '--segs', '2',
                                    '--routes', 'api,jsgf']))
    if tier == 'thorough':
        for conf in ('default', 'tight', 'open'):
            sp.append(('c03-%s-enum33' % conf, ['--conf', conf, '--gset', 'enum:3:3', '--words', 'a,go,no', '--probs', '1,0.5', '--syms', SYM3,
                                               '--segs', '2', '--routes', 'api,jsgf']))
            sp.append(('c03-%s-lw1' % conf, ['--conf', conf, '--lw', '1', '--wip', '0.2', '--pip', '0.5', '--gset', 'enum:2:3',
                                            '--words', 'a,go,no', '--probs', '1,0.5', '--syms', SYM3, '--segs', '2', '--lens', '2,4', '--routes', ALLROUTES]))
    return sp


def _c03_count_runs(tier):
    r = []
    fr = [(2, 0, 2, 3), (3, 0, 1, 1), (1, 1, 1, 1)] if tier == 'quick' else [(2, 0, 3, 8), (3, 0, 2, 8), (1, 1, 2, 2), (0, 0, 3, 2), (4, 0, 2, 1)]
    for a, g, dev, nsh in fr:
        for i in range(nsh):
            r.append(dict(h='mc_chunk', label='c03-count-a%d-g%d-dev%d-shard%d' % (a, g, dev, i),
                          args=['--props', 'C03', '--audio', str(a), '--gram', str(g), '--dev', str(dev), '--menu', 'frames', '--uniform', '1',
                                '--shard', '%d/%d' % (i, nsh)]))
    return r


def _c02_specs(tier):
    sp = []
    variants = [('f1a1', []), ('f0a1', ['--filler', '0']), ('f1a0', ['--alt', '0']),
                ('lw1', ['--lw', '1']), ('pen', ['--wip', '0.2', '--pip', '0.5']), ('lw1pen-f0', ['--lw', '1', '--wip', '0.2', '--pip', '0.5', '--filler', '0'])]
    for name, extra in variants:
        sp.append(('c02-open-%s-hand' % name, ['--conf', 'open'] + extra + ['--gset', 'hand', '--syms', 'SIL,AH,G,OW,T,_', '--segs', '3',
                                                                          '--routes', 'api', '--patterns', '1']))
        sp.append(('c02-open-%s-enum23' % name, ['--conf', 'open'] + extra + ['--gset', 'enum:2:3', '--words', 'a,go,no', '--probs', '1,0.5',
                                                                            '--syms', SYM3, '--segs', '2', '--routes', 'api', '--patterns', '1'])
                  if name in ('f1a1', 'lw1pen-f0') or tier == 'thorough' else
                  ('c02-open-%s-enum22' % name, ['--conf', 'open'] + extra + ['--gset', 'enum:2:2', '--words', 'a,go', '--probs', '1,0.5',
                                                                            '--syms', 'SIL,AH,G,OW,_', '--segs', '3', '--routes', 'api', '--patterns', '1']))
    # words whose word-initial triphones are TIED across left contexts in en-us (G(SIL,OW) = G(T,OW)): lextree roots shared by several contexts
    sp.append(('c02-open-ties-enum22', ['--conf', 'open', '--gset', 'enum:2:2', '--words', 'go,goat,at', '--syms', 'SIL,G,OW,T,AE,_', '--segs', '3',
                                        '--routes', 'api', '--patterns', '1']))
    # the dictionary built with decoder_add_word instead of read from its file: lazily filled cross-word triphone tables
    sp.append(('c02-open-addwords-enum22', ['--conf', 'open', '--gset', 'enum:2:2', '--words', 'go,goat,ago', '--syms', 'SIL,G,OW,T,AH,_', '--segs', '3',
                                            '--routes', 'api', '--patterns', '1', '--addwords', '1']))
    # the whole utterance in ONE full-utterance call with every kind of partial result asked for before decoder_end_utt (which then searches nothing more)
    sp.append(('c02-open-fullutt-partial-enum22', ['--conf', 'open', '--gset', 'enum:2:2', '--words', 'a,go', '--probs', '1,0.5', '--syms', 'SIL,AH,G,OW,_', '--segs', '3',
                                                   '--routes', 'api', '--patterns', '1', '--pattern', '2']))
    sp.append(('c02-default-fullutt-partial-hand', ['--conf', 'default', '--gset', 'hand', '--syms', 'SIL,AH,G,OW,T,_', '--segs', '3', '--routes', 'api', '--patterns', '1', '--pattern', '2']))
    for conf in ('default', 'tight'):
        sp.append(('c02-%s-enum23' % conf, ['--conf', conf, '--gset', 'enum:2:3', '--words', 'a,go,no', '--syms', SYM3, '--segs', '2',
                                           '--routes', 'api', '--patterns', '1']))
    if tier == 'thorough':
        sp.append(('c02-open-enum33', ['--conf', 'open', '--gset', 'enum:3:3', '--words', 'a,go,no', '--syms', SYM3, '--segs', '2',
                                       '--routes', 'api,jsgf', '--patterns', '1']))
        sp.append(('c02-open-enum23-s3', ['--conf', 'open', '--gset', 'enum:2:3', '--words', 'a,go,no', '--probs', '1,0.5', '--syms', SYM3, '--segs', '3',
                                          '--routes', 'api', '--patterns', '1']))
        sp.append(('c02-open-goat', ['--conf', 'open', '--gset', 'enum:2:3', '--words', 'go,goat,at', '--syms', 'SIL,G,OW,T,AE,_', '--segs', '3',
                                     '--routes', 'api', '--patterns', '1']))
    return sp


def _c04_specs(tier):
    sp = [('c04-longword-open', ['--conf', 'open', '--gset', 'special', '--syms', 'AH', '--segs', '18', '--lens', '3', '--routes', 'api'], 8)]
    for conf in ('default', 'tight', 'open'):
        sp.append(('c04-%s-hand' % conf, ['--conf', conf, '--gset', 'hand', '--syms', 'SIL,AH,G,OW,T,_', '--segs', '3', '--routes', 'api,aligntext']))
        sp.append(('c04-%s-enum22' % conf, ['--conf', conf, '--gset', 'enum:2:2', '--words', 'a,go', '--syms', 'SIL,AH,G,OW,_', '--segs', '3',
                                           '--routes', 'api,aligntext']))
    if tier == 'thorough':
        for conf in ('default', 'tight', 'open'):
            sp.append(('c04-%s-enum23' % conf, ['--conf', conf, '--gset', 'enum:2:3', '--words', 'a,go,no', '--syms', SYM3, '--segs', '3',
                                               '--routes', 'api,aligntext']))
            sp.append(('c04-%s-goat' % conf, ['--conf', conf, '--gset', 'enum:2:2', '--words', 'goat,ago,at', '--syms', 'SIL,G,OW,T,AE,AH,_', '--segs', '3',
                                             '--routes', 'api,aligntext']))
        sp.append(('c04-open-nofiller', ['--conf', 'open', '--filler', '0', '--gset', 'enum:2:3', '--words', 'a,go,no', '--syms', SYM3, '--segs', '3',
                                         '--routes', 'api']))
    return sp


def _c14_specs(tier):
    sp = []
    sy = 'SIL,S,EY,B,AE,K,T,AH,_'
    for fr in ('0', '50'):
        sp.append(('c14-special-frate%s' % fr, ['--conf', 'open', '--frate', fr, '--gset', 'special', '--syms', sy, '--segs', '3',
                                               '--routes', 'api,fsgtext']))
        sp.append(('c14-enum22-frate%s' % fr, ['--conf', 'default', '--frate', fr, '--gset', 'enum:2:2', '--words', 'a,go', '--syms', 'SIL,AH,G,OW,_',
                                              '--segs', '2', '--lens', '1,3,4', '--routes', 'api,jsgf']))
    # a 16-phone word, utterances up to 54 frames of one symbol: many entries under one parent, the word last in the result
    sp.append(('c14-longword-open', ['--conf', 'open', '--gset', 'special', '--syms', 'AH', '--segs', '18', '--lens', '3', '--routes', 'api'], 8))
    sp.append(('c14-hand-open', ['--conf', 'open', '--gset', 'hand', '--syms', 'SIL,AH,G,OW,T,_', '--segs', '3', '--routes', 'api']))
    sp.append(('c14-hand-tight', ['--conf', 'tight', '--gset', 'hand', '--syms', 'SIL,AH,G,OW,T,_', '--segs', '3', '--routes', 'api']))
    if tier == 'thorough':
        sp.append(('c14-enum23', ['--conf', 'default', '--gset', 'enum:2:3', '--words', 'a,go,no', '--syms', SYM3, '--segs', '2', '--routes', 'api,jsgf']))
    return sp


def _lat_specs(tier, tag):
    sp = []
    for conf in ('default', 'tight', 'open'):
        sp.append(('%s-%s-hand' % (tag, conf), ['--conf', conf, '--gset', 'hand', '--syms', 'SIL,AH,G,OW,T,_', '--segs', '3', '--routes', 'api']))
        sp.append(('%s-%s-enum22' % (tag, conf), ['--conf', conf, '--gset', 'enum:2:2', '--words', 'a,go', '--syms', 'SIL,AH,G,OW,_', '--segs', '3',
                                                 '--routes', 'api,jsgf']))
    # dense lattices: loop grammars over short words, beams open, 18 (thorough 21) frames: thousands of paths, the N-best agenda fills
    sp.append(('%s-open-loop-dense' % tag, ['--conf', 'open', '--gset', 'loop', '--syms', 'AH,G,OW', '--segs', '6' if tier == 'quick' else '7', '--lens', '3',
                                            '--routes', 'api', '--patterns', '1'], 2))
    # REAL audio and REAL scorer: 12 excerpts of the recording under loop grammars (one of 19 words): lattices of 100-300 nodes
    sp.append(('%s-real-loop' % tag, ['--conf', 'default', '--gset', 'loop', '--real', '1', '--syms', 'AH', '--routes', 'jsgf,api', '--patterns', '1', '--pattern', '2'], 3))
    sp.append(('%s-open-nofiller-hand' % tag, ['--conf', 'open', '--filler', '0', '--gset', 'hand', '--syms', 'SIL,AH,G,OW,T,_', '--segs', '3', '--routes', 'api']))
    if tier == 'thorough':
        for conf in ('default', 'tight', 'open'):
            sp.append(('%s-%s-enum23' % (tag, conf), ['--conf', conf, '--gset', 'enum:2:3', '--words', 'a,go,no', '--syms', SYM3, '--segs', '2',
                                                     '--routes', 'api,jsgf']))
        sp.append(('%s-open-nofiller' % tag, ['--conf', 'open', '--filler', '0', '--gset', 'enum:2:3', '--words', 'a,go,no', '--syms', SYM3, '--segs', '2',
                                              '--routes', 'api']))
        sp.append(('%s-open-enum33' % tag, ['--conf', 'open', '--gset', 'enum:3:3', '--words', 'a,go,no', '--syms', SYM3, '--segs', '2', '--lens', '3',
                                            '--routes', 'api']))
    return sp


def _ses_runs(props, specs, nshard=16):
    r = []
    for spec in specs:
        label, extra = spec[0], spec[1]
        nshard = spec[2] if len(spec) > 2 else 16
        for i in range(nshard):
            r.append(dict(h='mc_session', label='%s-shard%d' % (label, i), args=['--props', props] + extra + ['--shard', '%d/%d' % (i, nshard)]))
    return r


def _c09_specs(tier):
    if tier == 'quick':
        return [('c09-all-len2', ['--set', 'all', '--len', '2']), ('c09-core-len3', ['--set', 'core', '--len', '3']),
                ('c09-proto-len5', ['--set', 'proto', '--len', '5']), ('c09-two-core-len2', ['--set', 'core', '--len', '2', '--two', '1'])] + [
                    ('c09-synth-%s-core-len2' % sc, ['--set', 'core', '--len', '2', '--synth', sc], 2) for sc in ('semi', 'ms', 'mixw')] + [
                    # a decoder that starts life without a grammar, and non-default search options
                    ('c09-boot-nogram-len4', ['--set', 'boot', '--len', '4', '--nogram', '1'], 8),
                    ('c09-nofiller-core-len2', ['--set', 'core', '--len', '2', '--cfg', 'fsgusefiller=no'], 2),
                    ('c09-nofiller-lat-len4', ['--set', 'lat', '--len', '4', '--cfg', 'fsgusefiller=no'], 8),
                    ('c09-noalt-nobestpath-lat-len4', ['--set', 'lat', '--len', '4', '--cfg', 'fsgusealtpron=no,bestpath=no'], 8),
                    ('c09-noalt-nobestpath-core-len2', ['--set', 'core', '--len', '2', '--cfg', 'fsgusealtpron=no,bestpath=no'], 2)]
    return [('c09-all-len3', ['--set', 'all', '--len', '3']), ('c09-core-len4', ['--set', 'core', '--len', '4']),
            ('c09-proto-len6', ['--set', 'proto', '--len', '6']), ('c09-two-core-len3', ['--set', 'core', '--len', '3', '--two', '1'])] + [
                ('c09-synth-%s-all-len2' % sc, ['--set', 'all', '--len', '2', '--synth', sc], 4) for sc in ('semi', 'ms', 'mixw')] + [
                ('c09-boot-nogram-len5', ['--set', 'boot', '--len', '5', '--nogram', '1'], 16),
                ('c09-nofiller-all-len2', ['--set', 'all', '--len', '2', '--cfg', 'fsgusefiller=no'], 8),
                ('c09-nofiller-core-len3', ['--set', 'core', '--len', '3', '--cfg', 'fsgusefiller=no'], 8),
                ('c09-noalt-nobestpath-all-len2', ['--set', 'all', '--len', '2', '--cfg', 'fsgusealtpron=no,bestpath=no'], 8)]


def _c08_specs(tier):
    if tier == 'quick':
        return [('c08-all-len1', ['--set', 'all', '--len', '1', '--bigprobe', '1'], 4), ('c08-core-len2', ['--set', 'core', '--len', '2']), ('c08-proto-len4', ['--set', 'proto', '--len', '4']),
                ('c08-two-core-len2', ['--set', 'core', '--len', '2', '--two', '1'])] + [
                    ('c08-synth-%s-proto-len3' % sc, ['--set', 'proto', '--len', '3', '--synth', sc], 3) for sc in ('semi', 'ms')] + [
                    # a cap on active HMMs that the probe grammar exceeds: the search narrows its beams dynamically
                    ('c08-maxhmmpf5-proto-len3', ['--set', 'proto', '--len', '3', '--maxhmmpf', '5'], 4),
                    ('c08-maxhmmpf3-core-len2', ['--set', 'core', '--len', '2', '--maxhmmpf', '3'], 4),
                    ('c08-nofiller-proto-len3', ['--set', 'proto', '--len', '3', '--cfg', 'fsgusefiller=no'], 4),
                    ('c08-boot-nogram-len3', ['--set', 'boot', '--len', '3', '--nogram', '1'], 10),
                    # whole-utterance and streaming calls of the whole recording mixed on one decoder
                    ('c08-batchstream5-len3', ['--set', 'batchstream', '--batchstream-ops', '5', '--len', '3', '--bigprobe', '1'], 8),
                    # a differently configured second decoder that decoded first in this process; reference digests from a process that never had one
                    ('c08-two-different-configs-proto-len2', ['--set', 'proto', '--len', '2', '--two', '2'], 4)]
    # (all operations to length 3 would be 100000 histories with a seven-utterance probe each: beyond the budget; C09 and C16 go there)
    return [('c08-all-len2', ['--set', 'all', '--len', '2', '--bigprobe', '1']), ('c08-core-len3', ['--set', 'core', '--len', '3']), ('c08-proto-len5', ['--set', 'proto', '--len', '5']),
            ('c08-two-core-len3', ['--set', 'core', '--len', '3', '--two', '1'])] + [
                ('c08-synth-%s-core-len2' % sc, ['--set', 'core', '--len', '2', '--synth', sc], 2) for sc in ('semi', 'ms')] + [
                ('c08-maxhmmpf5-proto-len4', ['--set', 'proto', '--len', '4', '--maxhmmpf', '5'], 8),
                ('c08-maxhmmpf3-core-len3', ['--set', 'core', '--len', '3', '--maxhmmpf', '3'], 16),
                ('c08-maxhmmpf10-all-len2', ['--set', 'all', '--len', '2', '--maxhmmpf', '10'], 8),
                ('c08-batchstream-len4', ['--set', 'batchstream', '--len', '4', '--bigprobe', '1'], 16),
                ('c08-two-different-configs-core-len2', ['--set', 'core', '--len', '2', '--two', '2'], 16)]


def _c16_specs(tier):
    if tier == 'quick':
        return [('c16-dict-len3', ['--set', 'dict', '--len', '3']), ('c16-all-len2', ['--set', 'all', '--len', '2']),
                ('c16-dictcase-dict-len2', ['--set', 'dict', '--len', '2', '--cfg', 'dictcase=yes'], 8)]
    return [('c16-dict-len4', ['--set', 'dict', '--len', '4']), ('c16-all-len3', ['--set', 'all', '--len', '3']), ('c16-dictcase-dict-len3', ['--set', 'dict', '--len', '3', '--cfg', 'dictcase=yes'])]


def _c07_runs(tier):
    r = []
    if tier == 'quick':
        # (audio, grammar, deviations, menu, subsets, firstcut, shards)
        combos = [(0, 0, 3, 'small', 1, 1, 4), (0, 1, 2, 'full', 1, 0, 2), (1, 0, 2, 'full', 1, 0, 3), (1, 1, 2, 'small', 0, 0, 1),
                  (2, 0, 2, 'small', 0, 0, 3), (2, 1, 1, 'full', 0, 0, 1), (3, 0, 1, 'full', 0, 0, 1), (4, 0, 2, 'small', 0, 0, 1)]
    else:
        combos = [(a, g, 3, 'full', 1, 1, 8) for a in (0, 1, 2) for g in (0, 1)] + [(3, 0, 2, 'full', 1, 0, 8), (3, 1, 2, 'small', 0, 0, 4),
                                                                                  (4, 0, 3, 'small', 1, 0, 4), (4, 1, 2, 'full', 0, 0, 2)]
    for a, g, dev, menu, subsets, firstcut, nsh in combos:
        for i in range(nsh):
            r.append(dict(h='mc_chunk', label='chunk-a%d-g%d-dev%d-%s-shard%d' % (a, g, dev, menu, i),
                          args=['--audio', str(a), '--gram', str(g), '--dev', str(dev), '--menu', menu, '--subsets', str(subsets),
                                '--firstcut', str(firstcut), '--shard', '%d/%d' % (i, nsh)]))
    # cuts where the cumulative number of cepstral frames is exactly f, f around the ring/feature-buffer sizes, and
    # uniform chunkings of the whole utterance (1 sample ... 8192 samples per call, int16/float, with/without partial queries)
    fr = [(2, 0, 2, 3), (2, 1, 1, 1), (3, 0, 1, 1), (3, 1, 1, 1)] if tier == 'quick' else [(2, 0, 3, 8), (2, 1, 2, 4), (3, 0, 2, 8), (3, 1, 2, 4), (1, 0, 2, 1), (4, 0, 1, 1)]
    for a, g, dev, nsh in fr:
        for i in range(nsh):
            r.append(dict(h='mc_chunk', label='chunk-a%d-g%d-dev%d-frames-uniform-shard%d' % (a, g, dev, i),
                          args=['--audio', str(a), '--gram', str(g), '--dev', str(dev), '--menu', 'frames', '--uniform', '1', '--fresh', '1',
                                '--shard', '%d/%d' % (i, nsh)]))
    # one full-utterance call against one streaming call, number of frames only, for every length in the last 170 samples
    for a in ((0, 1) if tier == 'quick' else (0, 1, 2, 3)):
        r.append(dict(h='mc_chunk', label='chunk-a%d-fullutt-framecount' % a, args=['--audio', str(a), '--gram', '0', '--dev', '0', '--fullutt', '1']))
    # the audio ends exactly on the end of an analysis window (410 + 160 k samples): all-but-the-last-m-samples then those, and uniform chunkings
    for a in ((1, 2) if tier == 'quick' else (0, 1, 2, 3)):
        r.append(dict(h='mc_chunk', label='chunk-a%d-window-lastpiece' % a, args=['--audio', str(a), '--gram', '0', '--dev', '0', '--window', '1', '--lastpiece', '1', '--uniform', '1']))
    # a decoder that has already taken the whole recording in ONE full-utterance call (buffers sized by it stay that size), then a short first call and the rest
    nsh = 8
    for i in range(nsh):
        r.append(dict(h='mc_chunk', label='chunk-a3-after-fullutt-firstcut-shard%d' % i, args=['--audio', '3', '--gram', '0', '--dev', '0' if tier == 'quick' else '1', '--menu', 'small',
                                                                                                 '--firstcut', '1', '--prefull', '1', '--shard', '%d/%d' % (i, nsh)]))
    if tier == 'thorough':
        for i in range(4):
            r.append(dict(h='mc_chunk', label='chunk-compallsen-shard%d' % i, args=['--audio', '2', '--gram', '0', '--dev', '2', '--menu', 'full',
                                                                                   '--compallsen', '1', '--shard', '%d/4' % i]))
    return r


def _c10_runs(tier):
    r = []
    lens = dict(jsgf=3, fsg=3, dict=3, fdict=3, json=3, cfgset=3, align=3, addword=3, cmn=3, fsgdec=3, jsgfdec=3, jsgfimp=3)
    shards = dict(jsgf=4, fsg=2, dict=2, fdict=2, jsgfimp=4)
    if tier == 'thorough':
        lens = dict(jsgf=4, fsg=4, dict=4, fdict=4, json=4, cfgset=4, align=4, addword=4, cmn=4, fsgdec=4, jsgfdec=4, jsgfimp=4)
        shards = dict(jsgf=16, fsg=8, dict=8, fdict=8, json=4, fsgdec=4, jsgfdec=4, addword=2, align=2, cfgset=4, cmn=2, jsgfimp=8)
    for f, l in lens.items():
        n = shards.get(f, 1)
        for i in range(n):
            r.append(dict(h='mc_parse', label='parse-%s-tokens-len%d-shard%d' % (f, l, i), args=['--format', f, '--space', 'tokens', '--len', str(l), '--shard', '%d/%d' % (i, n)]))
        m = 3 if f in ('jsgf', 'dict') else 1
        for i in range(m):
            r.append(dict(h='mc_parse', label='parse-%s-mutate-shard%d' % (f, i), args=['--format', f, '--space', 'mutate', '--shard', '%d/%d' % (i, m)]))
    for f in ('jsgf', 'json'):
        r.append(dict(h='mc_parse', label='parse-%s-nest' % f, args=['--format', f, '--space', 'nest']))
    return r


MF_ENV = {'ASAN_OPTIONS': 'detect_leaks=0:allocator_may_return_null=1:max_allocation_size_mb=256:abort_on_error=0:exitcode=97'}


def _c17_runs(tier):
    r = []
    stride = '65536' if tier == 'quick' else '2048'
    dense = '512' if tier == 'quick' else '4096'
    files = ['transition_matrices', 'means', 'variances', 'sendump', 'mdef', 'featparams', 'lda']
    nsh = 2 if tier == 'quick' else 8
    models = (('en-us', '1'), ('fr-fr', '0')) + ((('en-us', '0'), ('fr-fr', '1')) if tier == 'thorough' else ())
    for model, mmap in models:
        for f in files:
            n = 1 if f in ('featparams',) else nsh
            for i in range(n):
                r.append(dict(h='mc_modelfault', label='modelfault-%s-%s-mmap%s-shard%d' % (model, f, mmap, i), env=MF_ENV,
                              args=['--model', model, '--file', f, '--mmap', mmap, '--stride', stride, '--dense', dense, '--shard', '%d/%d' % (i, n)]))
    # synthetic parameter files (harness/synth_model.h): the loaders no bundled model selects
    synth = [('synth-semi', 'means'), ('synth-semi', 'mixture_weights'), ('synth-ms', 'variances'), ('synth-ms', 'mixture_weights'), ('synth-mixw', 'mixture_weights')]
    for model, f in synth:
        n = 4 if tier == 'quick' else 8
        for i in range(n):
            r.append(dict(h='mc_modelfault', label='modelfault-%s-%s-shard%d' % (model, f, i), env=MF_ENV,
                          args=['--model', model, '--file', f, '--mmap', '1', '--stride', '262144' if tier == 'quick' else '8192', '--dense', dense, '--shard', '%d/%d' % (i, n)]))
    return r


def _c18_runs(tier):
    r = []
    BATCH_ONLY = (2, 10)  # varnorm: the library refuses it in live mode (E_FATAL "not implemented")

    def add(mode, cfg, l, n, scorer='ptm'):
        for i in range(n):
            r.append(dict(h='mc_numeric', label='numeric-%s-cfg%d-%s-len%d-shard%d' % (scorer, cfg, mode, l, i),
                          args=['--mode', mode, '--cfg', str(cfg), '--len', str(l), '--scorer', scorer, '--shard', '%d/%d' % (i, n)]))
    q = tier == 'quick'
    add('stream', 0, 3 if q else 5, 4 if q else 16)
    add('batch', 0, 3 if q else 4, 4 if q else 8)
    add('float', 0, 2 if q else 3, 2 if q else 4)
    add('float', 1, 1 if q else 2, 1)
    for cfg in range(1, 12):
        if cfg not in BATCH_ONLY:
            add('stream', cfg, 2 if q else 3, 1 if q else 2)
        add('batch', cfg, 2 if q else 3, 1 if q else 2)
    for sc in ('semi', 'ms', 'mixw'):
        add('stream', 0, 2 if q else 3, 1 if q else 2, sc)
        add('batch', 0, 2 if q else 3, 1 if q else 2, sc)
        for i in range(1 if q else 4):
            r.append(dict(h='mc_numeric', label='numeric-%s-long-shard%d' % (sc, i),
                          args=['--mode', 'long', '--scorer', sc, '--chains', '1' if q else '4', '--shard', '%d/%d' % (i, 1 if q else 4)]))
    # only the senones the search asks for (the default), also with down-sampled Gaussian selection
    for cfg in (0, 7):
        for mode in ('stream', 'batch'):
            r.append(dict(h='mc_numeric', label='numeric-ptm-cfg%d-%s-activeonly' % (cfg, mode),
                          args=['--mode', mode, '--cfg', str(cfg), '--len', '2' if q else '3', '--compallsen', '0', '--shard', '0/1']))
    for sc in ('semi', 'ms', 'mixw'):
        r.append(dict(h='mc_numeric', label='numeric-%s-activeonly' % sc, args=['--mode', 'stream', '--len', '1' if q else '2', '--scorer', sc, '--compallsen', '0', '--shard', '0/1']))
    # the search driven with the worst scores a scorer can deliver, long enough for path scores to reach their floor
    r.append(dict(h='mc_numeric', label='numeric-worst-scores-long', args=['--mode', 'long', '--inject', 'worst', '--frames', '20000' if q else '70000', '--chains', '1', '--shard', '0/1']))
    chains = [(0, 3 if q else 16)] + ([(1, 1), (4, 1)] if q else [(1, 4), (3, 4), (4, 4), (7, 4), (11, 4)])
    for cfg, nl in chains:
        for i in range(nl):
            r.append(dict(h='mc_numeric', label='numeric-cfg%d-long-shard%d' % (cfg, i),
                          args=['--mode', 'long', '--cfg', str(cfg), '--chains', str(nl), '--shard', '%d/%d' % (i, nl)]))
    return r


SES_ASSUME = ['operation alphabet of 47 public-API calls (see harness/mc_session.c); audio = excerpts of tests/data/goforward.raw, zeros, and no samples; '
              'REAL front end and REAL acoustic scorer (no injected scores)',
              'grammar loading, dictionary additions and reinit are only issued between utterances (the documented protocol); every other call is issued in every state',
              'small dictionary (9 words) on model en-us; each history runs in a child forked from one initialised decoder',
              'C08/C09 add columns on synthetic parameter files (harness/synth_model.h) so that the semi-continuous, general multi-stream and '
              'mixture-weight loading paths are initialised, used and freed too']

DEC_ASSUME = ['audio is represented by per-frame symbols over a small phone alphabet: senone scores are base(symbol, phone of senone) + a fixed '
              'per-senone jitter, supplied through the interposed acmod_score; the front end, feature buffering and every search decision are real',
              'dictionary of 14 words over the en-us phone set (one-, two-, three-phone words, shared prefixes, alternates); model en-us only',
              'utterances of at most 3 segments / 12 frames']

CHECKS = {
    'C01': dict(
        min_nontrivial_ratio=0.05,
        title='recognition results are sentences of the active grammar',
        level='exploration',
        runs={'quick': _dec_runs('C01', _c01_specs('quick')), 'thorough': _dec_runs('C01', _c01_specs('thorough'))},
        budget_s={'quick': 400, 'thorough': 3000},
        coverage=ex_cov,
        rule='every grammar of the enumerated set (all FSGs up to 2 states/3 arcs [thorough: 3/3] over {a,go,no,eps}, canonical up to state '
             'renaming, plus 15 hand-written ones with context fan-in/out, loops, null chains) x route {fsg_model API, FSG text, right-linear '
             'JSGF encoding, alignment text} x every symbol-sequence utterance up to S segments x {one call; frame-sized chunks with a '
             'partial result after each} x beams {default, tight, open}. Oracle: an NFA built from the INPUT arc list decides whether the '
             'filler-free, base-form word sequence of hypothesis string and segmentation is accepted start-to-final (final) or is a path '
             'prefix (partial); the reference Viterbi decides whether any complete alignment exists at all. non-trivial = a hypothesis was returned',
        assumptions=DEC_ASSUME + TRUST,
    ),
    'C02': dict(
        min_nontrivial_ratio=0.05,
        title='with pruning disabled the search returns the true Viterbi optimum',
        level='exploration',
        runs={'quick': _dec_runs('C02', _c02_specs('quick')) + _hmm_runs('A', 'quick') + _blk_runs('C02'), 'thorough': _dec_runs('C02', _c02_specs('thorough')) + _hmm_runs('A', 'thorough') + _blk_runs('C02')},
        budget_s={'quick': 400, 'thorough': 3000},
        coverage=ex_cov,
        rule='grammars x utterances as for C01, beams fully open (beam=pbeam=wbeam=0, maxhmmpf=-1) x {fillers on/off, alternates on/off, '
             'lw 1|6.5, wip/pip default|(0.2,0.5)}; oracle: token-passing Viterbi in the same integer arithmetic over the explicitly '
             'expanded network (one HMM unit per word arc x phone x context variant, triphones from bin_mdef_phone_id_nearest, no tree, no '
             'sharing, no history domination, no beams) must give exactly the reported score; default/tight beams: reported <= optimum '
             '(compared when the result spans all frames). non-trivial = a hypothesis was returned. '
             'PLUS the HMM evaluator driven directly (mc_hmm, regime A): E-BFS over histories of {enter 0|-10|none} x {senone cost vectors over {0,9,700}^n} '
             'frames, clear and normalise on one real hmm_t to depth 4 (quick) / 5 (thorough), for the 3-state, the 5-state and the generic evaluator (1, 2, 4 '
             'emitting states) x 4-6 transition matrices incl. skip arcs, forbidden arcs, states without self-loop: after EVERY transition every '
             'state score, the exit score, the returned best score and every history pointer must equal one step of a 64-bit reference Viterbi '
             'recursion computed from the state before the transition',
        assumptions=DEC_ASSUME + ['the reference expands the grammar the search runs on (after add_silence/add_alt/closure, which C13 covers)',
                                  'context conventions granted to the decoder are those documented in fsg_lextree.c/fsg_search.c (see harness/refviterbi.h)'] + TRUST,
    ),
    'C04': dict(
        min_nontrivial_ratio=0.05,
        title='forced alignment is a consistent words > phones > states hierarchy',
        level='exploration',
        runs={'quick': _dec_runs('C04', _c04_specs('quick')), 'thorough': _dec_runs('C04', _c04_specs('thorough'))},
        budget_s={'quick': 400, 'thorough': 3000},
        coverage=ex_cov,
        rule='grammars (incl. alignment-text chains) x utterances x beams x {final; partial after frames 1,5,9,.. with the utterance continuing}: '
             'decoder_alignment words == dictionary words of the first-pass segmentation with equal start/duration; phones == '
             'decoder_lookup_word pronunciation; states == the phone\'s emitting senones; children partition parents with positive '
             'durations from frame 0; parent score == sum of children; every state score recomputed independently from the injected score '
             'table and the transition matrix (emissions + self-loops + exit transition); second call returns the same object / same failure',
        assumptions=DEC_ASSUME + ['state scores are checked against the senone scores the aligner was given (the second pass uses its own '
                                  'context conventions, so they are not compared with first-pass word scores)'] + TRUST,
    ),
    'C07': dict(
        title='decoding results do not depend on chunking or buffering mode',
        level='exploration',
        runs={'quick': _c07_runs('quick'), 'thorough': _c07_runs('thorough')},
        budget_s={'quick': 600, 'thorough': 5400},
        coverage=ex_cov,
        rule='deviation-bounded enumeration: reference = ONE streaming decoder_process_int16 call; a plan deviates by cuts from a menu of up to '
             '24 sample offsets around every internal threshold (1, 2, shift+-1, window+-1, window+shift, feature window, 128 frames +-1 (MFCC '
             'ring), 256 frames +-1 (feature block), N/2, N-1), by buffering a chunk with no_search, by the float32 entry point, by a zero-length '
             'call, by a partial hyp/seg/lattice/alignment query after a chunk; ALL plans with <= 2-3 deviations, all 1023 cut subsets of a '
             '10-point sub-menu, every first cut in [1,600]; a second menu of the sample counts that complete exactly f cepstral frames for every '
             'f in 124..136 and 252..264 (ring and feature-buffer sizes +- the dynamic-feature window); uniform chunkings of the whole utterance with '
             '1, 80, 159, 160, 161, 320, 400, 512, 1024, 2048, 4096, 8192 samples per call (int16/float, with/without partial queries), these two '
             'families each plan on a FRESH decoder (buffers that grew in an earlier utterance stay grown); audio = 0.3/0.7/1.4 s excerpts and the whole goforward.raw, zeros; loop grammar and '
             'alignment text; real front end and real scorer, decoder_set_cmn(fixed) before every utterance. Oracle (differential): feature '
             'vector of every searched frame (hashed at the acmod_score seam), frames searched, hypothesis, score, every segment with scores, '
             'and the three-level alignment identical to the reference run',
        assumptions=['audio shorter than the 800-frame channel-normalisation update window', 'model en-us, 5-word dictionary',
                     'full_utt=1 is a different documented mode (batch normalisation): only its NUMBER of frames is compared here (every length in '
                     'the last 170 samples of an excerpt, int16 and float32); its results are covered by C08'] + TRUST,
    ),
    'C08': dict(
        title='utterances and decoder instances are isolated; decoding is deterministic',
        level='exploration',
        runs={'quick': _ses_runs('C08', _c08_specs('quick')), 'thorough': _ses_runs('C08', _c08_specs('thorough'))},
        budget_s={'quick': 600, 'thorough': 5400},
        coverage=ex_cov,
        rule='every API history up to length 1 over all 47 operations, 2 over the 18-operation core, 4 over the 7-operation protocol core, 3 '
             'over the boot set from a grammar-less decoder (thorough: 2 / 3 / 5 / 4), also on synthetic scorers, with a cap on active HMMs '
             '(maxhmmpf 3/5/10) and without filler transitions; followed by a probe in TWO orders, each on its own copy of the process '
             '(fork) and compared with the same order on a fresh decoder: (1) whole-utterance decodes first, WITHOUT any reset (an excerpt '
             'with the length of the history utterance but other content, 1.9 s of the recording, another excerpt), then streaming in '
             '256-sample blocks after decoder_set_cmn(full vector); (2) decoder_set_cmn with a SHORT list first, then two streamed utterances '
             'and the normalisation state as text. Digest = hypothesis, score, every segment with scores, frame count, lattice node/link '
             'counts and score sum, first 3 N-best entries, the three-level alignment. The probe grammar is reloaded only when the history '
             'left another one. Column --two: a second decoder does its own utterance between the operations and both must probe equal',
        assumptions=SES_ASSUME + ['dither off (it uses a process-global random generator)'] + TRUST,
    ),
    'C09': dict(
        title='no sequence of API calls corrupts memory, aborts, or leaks',
        level='exploration',
        runs={'quick': _ses_runs('C09', _c09_specs('quick')) + _blk_runs('C09'), 'thorough': _ses_runs('C09', _c09_specs('thorough')) + _blk_runs('C09')},
        budget_s={'quick': 600, 'thorough': 5400},
        coverage=ex_cov,
        rule='every API history up to length 2 over all 47 operations, length 3 over the 18-operation core, length 5 over the 7-operation '
             'protocol core {start, process, end, hyp, seg, alignment, free}, length 4 over the boot set from a grammar-less decoder and over '
             'the lattice set without filler transitions / without alternates and best-path (thorough: 3/4/6/5), also on synthetic scorers, each in a forked child under ASan+UBSan with '
             'asserts on: outcome must be a normal return (no sanitizer report, assertion, exit, hang), out-of-order calls must return the '
             'documented error value, and after the last reference is released the allocator must be back at the baseline measured before '
             'the decoder was created (leaks are attributed to their allocation site with a recoverable LeakSanitizer pass)',
        assumptions=SES_ASSUME + TRUST,
    ),
    'C16': dict(
        title='dictionary additions take effect and never disturb existing entries',
        level='exploration',
        runs={'quick': _ses_runs('C16', _c16_specs('quick')), 'thorough': _ses_runs('C16', _c16_specs('thorough'))},
        budget_s={'quick': 600, 'thorough': 5400},
        coverage=ex_cov,
        rule='every history up to length 3 (thorough 4) over 17 dictionary-centred operations (4200 generated words in one go, so that the table grows past '
             'its preallocated entries; new word, alternate, duplicate, repeated '
             'alternate, alternate without base, unknown phone, empty word, empty pronunciation, update 0/1, lookups, grammar loads, an '
             'utterance, reinit) and up to length 2 over all operations; after EVERY operation 11 lookups are compared with a reference '
             'dictionary (all 4200 generated words too), every alternate chain is walked (acyclic, shared base, complete), rejected additions must change nothing, accepted '
             'words must be usable at once in alignment text and JSGF, report their base spelling, and decode exactly like the same word read from a dictionary file',
        assumptions=SES_ASSUME + TRUST,
    ),
    'C10': dict(
        title='untrusted grammar, dictionary, configuration and text inputs are handled safely',
        level='exploration',
        runs={'quick': _c10_runs('quick'), 'thorough': _c10_runs('thorough')},
        budget_s={'quick': 600, 'thorough': 5400},
        coverage=ex_cov,
        rule='12 entry points (jsgf_parse_string+build, jsgf_parse_file on grammar FILES that import each other [main/sub/other.gram written per case: token sequences continue the imported file and may open a third; import of self, of the importer, of a missing or malformed file, twice], fsg_model_read_s3file, dict_init_s3file main/filler, config_parse_json, config_set_str, '
             'decoder_set_align_text, decoder_add_word, decoder_set_cmn, decoder_init_grammar_s3file, decoder_set_jsgf_string). Space A: every token '
             'sequence up to length 3 (thorough 4) over a 13-31 token alphabet per format (keywords, brackets, numbers incl. 2147483648/1e40/-1, a '
             '70000-byte token, a 0xff byte, comment openers) x {bare, after 1-2 valid prefixes} x {space-joined, newline-terminated, concatenated}; '
             'Space B: for each valid seed file every truncation length, every single-byte replacement from a 12-byte set at every offset, every '
             'token deletion, every line duplication; Space C: nesting depths up to 5000. File-like inputs are exact-size heap blocks without NUL. '
             'Oracle: process outcome (sanitizer, assertion, exit, 20 s hang), the returned object is used and freed, allocator back to its level',
        assumptions=['non-trivial = the library returned an object rather than a failure value',
                     'for JSGF inputs compiling to more than 300 states only the raw FSG is built (the null-transition closure is cubic)'] + TRUST,
    ),
    'C17': dict(
        title='damaged acoustic-model files are rejected without memory errors',
        level='fault_enumeration',
        runs={'quick': _c17_runs('quick'), 'thorough': _c17_runs('thorough')},
        budget_s={'quick': 900, 'thorough': 7200},
        coverage=ex_cov,
        rule='(every file also ABSENT from the model directory, i.e. the existence test of the library fails and no path is configured for it, next to MISSING = configured but unreadable) fault enumeration on decoder_init end to end, per model (en-us, fr-fr, and three synthetic ones for the scorer modules the bundled '
             'models do not select) and per file (mdef, means, variances, sendump, mixture_weights, '
             'transition_matrices, feat_params.json, a feature_transform): the file missing; EVERY truncation length in the header and the '
             'first 512 B (quick) / 4 KiB (thorough) of payload, on a stride through the bulk (65536 quick / 2048 thorough) and the last 16 lengths; every 32-bit word of '
             'the first 256 payload bytes set to {0,1,v-1,v+1,2v,0x7fffffff,0xffffffff,byteswap(v)}; single-bit flips in the header text, '
             'byte-order magic and trailing checksum (every byte of feat_params.json); mmap on/off. The library sees exact-size heap copies '
             '(s3file_map_file interposed). Oracle: outcome (sanitizer, assertion, exit, hang), a damaged file that is accepted must not '
             'change the probe result, afterwards the intact model loads and decodes the probe to the known digest, allocator back to its '
             'level. non-trivial = the fault was rejected through the return value',
        assumptions=['allocation requests above 256 MiB fail deterministically (ASan max_allocation_size_mb), as on a small machine',
                     'the feature_transform of tests/data does not fit the bundled models: it is only probed for safe rejection',
                     'mixture_weights files are not bundled: the loaders that read them (s2_semi_mgau, ms_mgau/ms_senone/ms_gauden, ptm_mgau without a dump) '
                     'are explored on synthetic checksummed parameter files written by the harness'] + TRUST,
    ),
    'C18': dict(
        title='features and scores stay finite and within range for any audio',
        level='exploration',
        runs={'quick': _c18_runs('quick') + _hmm_runs('B', 'quick'), 'thorough': _c18_runs('thorough') + _hmm_runs('B', 'thorough')},
        budget_s={'quick': 600, 'thorough': 5400},
        coverage=ex_cov,
        rule='audio as a sequence of 10 ms frame types {zeros, +32767, -32768, full-scale Nyquist square, impulse, DC +1, white noise, speech '
             'frame} (float input adds +-1e30 and a subnormal): ALL sequences up to length 3 (quick) / 5 (thorough) repeated to 60 frames, '
             'streaming and batch, int16 and float entry, under 12 front-end configurations (noise removal, variance normalisation, DC removal '
             '+ dither, no CMN, legacy/HTK transforms, filterbank shape, warping, down-sampled scoring; length 2 / 3 for the non-default ones); '
             'plus 18000-frame (3 minute) chains of each type and of alternating pairs. Real front '
             'end, real scorer computing all senones, loop grammar; the PTM scorer on the bundled model, and the semi-continuous, '
             'general multi-stream and PTM-from-mixture-weights scorers on synthetic parameter files written by the harness; all senones computed, and '
             'only the active ones (the default) incl. down-sampled Gaussian selection; one chain with the worst possible scores injected (20000 / 70000 frames). At EVERY scored frame: every feature component finite, every senone score '
             'in [0,32767] with minimum 0; after the utterance: path and segment scores in (WORST_SCORE,0], normalisation state finite, its '
             'text export re-imports to bit-identical floats and re-exports to the same text. Library built with signed-overflow and '
             'float-cast-overflow traps. non-trivial = the utterance was scored to the end without a rejected call. '
             'PLUS the HMM evaluator driven directly (mc_hmm, regime B): E-BFS over histories of {enter 0 | enter WORST_SCORE+5 | none} x {senone costs '
             'over {0,32767}^n} frames and clear, to depth 2 (3 in the thorough tier), from the cleared HMM and from three states just above '
             'WORST_SCORE, for the 3-state, 5-state and generic (1,2,4 states) evaluators x transition matrices; in every state the closure '
             'operation "16500 worst frames" must end in a FIXPOINT (one more frame changes nothing), and no transition may produce a positive '
             'score or one better than the best score before it (costs are non-negative: that is a wrap-around); signed-overflow trap on',
        assumptions=['one bundled acoustic model (en-us) plus synthetic codebooks/mixture weights for the scorer modules it does not select; utterances up to 3 minutes',
                     'for the semi-continuous module "normalised to zero" is checked where that module normalises: the best density of each '
                     'stream (mgau_norm); it does not shift senone scores again, as in PocketSphinx',
                     'variance normalisation only with whole-utterance processing: the library refuses it in live mode with E_FATAL ("not implemented")',
                     'configurations that change the feature dimension (logspec, smoothspec, ncep) do not fit the bundled model and are not explored',
                     'the frame alphabet is a choice of extreme waveforms, not all waveforms'] + TRUST,
    ),
    'C11': dict(
        min_nontrivial_ratio=0.05,
        title='the word lattice is a well-formed, time-consistent graph of grammar paths',
        level='exploration',
        runs={'quick': _dec_runs('C11', _lat_specs('quick', 'c11')), 'thorough': _dec_runs('C11', _lat_specs('thorough', 'c11'))},
        budget_s={'quick': 400, 'thorough': 3000},
        coverage=ex_cov,
        rule='the lattice of every explored utterance (final, and mid-utterance after frames 2,6,10 with the utterance continuing), beams '
             '{default,tight,open}: start/end nodes present and unique, every node on a start-to-end path, acyclic (topological sort), every '
             'link joins ef=t to sf=t+1 within the utterance (artificial <s>/</s> nodes exempt), the label sequence of EVERY path is a path '
             'of the input grammar from its start state (exact DP over (node, set of grammar states)), the first-best segmentation is a '
             'chain of linked nodes with matching boundaries, a second decoder_lattice() call returns the same object',
        assumptions=DEC_ASSUME + ['no lattice (NULL) is accepted where the decoder builds none; counted in the evidence'] + TRUST,
    ),
    'C12': dict(
        min_nontrivial_ratio=0.05,
        title='N-best lists and lattice scores are ordered and probabilistically sane',
        level='exploration',
        runs={'quick': _dec_runs('C11,C12', _lat_specs('quick', 'c12')), 'thorough': _dec_runs('C11,C12', _lat_specs('thorough', 'c12'))},
        budget_s={'quick': 400, 'thorough': 3000},
        coverage=ex_cov,
        rule='on the same lattices: all start-to-end paths are enumerated (up to 20000) with their scores; lattice_bestpath score == the '
             'maximum and its hypothesis is a path with that score; every N-best hypothesis (score, words) is a start-to-end path with that '
             'score, scores non-increasing, the first is the maximum, and when the list ends by itself every path has been listed; '
             'lattice_posterior: long-double forward/backward over the same link scores gives the normaliser, forward == backward total, '
             'every link posterior <= 0 and equal to the reference within (2 + #links) log units, best-path posterior <= 0',
        assumptions=DEC_ASSUME + ['tolerance for table-driven log-add: 2 + number of links (each add errs by at most half a unit, C19)',
                                  'N-best completeness is only demanded for lattices with at most 400 paths (below the iterator\'s own agenda cap of 500)'] + TRUST,
    ),
    'C14': dict(
        min_nontrivial_ratio=0.05,
        title='the JSON result is well-formed and says what the iterators say',
        level='exploration',
        runs={'quick': _dec_runs('C14', _c14_specs('quick')), 'thorough': _dec_runs('C14', _c14_specs('thorough'))},
        budget_s={'quick': 400, 'thorough': 3000},
        coverage=ex_cov,
        rule='every final result and every 4th partial result of the exploration x level {0,1,2} x start {0,1.5} x frate {100,50}: strict '
             'RFC 8259 parse, exactly one trailing newline, strlen+1 == allocation size, t/b/d/p of the top level and of every word, '
             'phone and state entry equal to hypothesis / segment iterator / alignment iterators (numbers compared as printed, %.3f); '
             'grammars include words spelled with a quote, a backslash, UTF-8 bytes and a control character; empty results included',
        assumptions=DEC_ASSUME + ['the top-level duration is compared with decoder_n_frames()/frate, whatever that function reports',
                                  'with an alignment level > 0 a NULL return is accepted exactly when decoder_alignment() is NULL'] + TRUST,
    ),
    'C03': dict(
        min_nontrivial_ratio=0.05,
        title='word segmentation tiles the utterance and agrees with hypothesis and score',
        level='exploration',
        runs={'quick': _dec_runs('C03', _c03_specs('quick')) + _c03_count_runs('quick'),
              'thorough': _dec_runs('C03', _c03_specs('thorough')) + _c03_count_runs('thorough')},
        budget_s={'quick': 400, 'thorough': 3000},
        coverage=ex_cov,
        rule='grammars x routes x utterances (including 0, 1, 2, 3-frame ones) x {one call; frame-sized chunks with a partial result after '
             'each chunk; one full-utterance call with every partial query before decoder_end_utt}; on every partial and final result: segments contiguous from frame 0, positive length, within the frames searched, '
             'null segments zero-length at the preceding boundary, sum(ascr+lscr) == path score, lscr == an arc weight, hypothesis == base '
             'forms of non-filler segments, frames returned by processing calls + end_utt == frames the front end makes of the samples. '
             'Frame accounting also on REAL audio up to 2.8 s (mc_chunk --props C03): for every call pattern with <= 1-2 deviations over the '
             'frame-count cut menu and every uniform chunking (int16 and float32 entry, buffering, zero-length calls, partial queries) each call '
             'must return exactly the number of frames scored during it and the total must be the utterance',
        assumptions=DEC_ASSUME + ['a leading null segment is reported at frame -1 (boundary before frame 0): accepted as "preceding boundary"'] + TRUST,
    ),
    'C05': dict(
        title='JSGF compilation preserves the language of the grammar',
        level='exploration',
        runs={'quick': _jsgf_runs('quick'), 'thorough': _jsgf_runs('thorough')},
        budget_s={'quick': 300, 'thorough': 3000},
        coverage=ex_cov,
        rule='every JSGF grammar whose rules are syntax trees over {a, b, <s>, <x>, <y>, <undef>, <NULL>, <VOID>, ( ), [ ], *, +, '
             'sequence, |}: 1 rule with <s> up to 4 nodes, 2 rules 3x3, 3 rules 3x1x1 (quick); 5 / 4x3 / 3x2x2 (thorough); each '
             'rendered plain, with weights on every alternative, and decorated with tags, comments and a quoted token; compiled with '
             'jsgf_build_fsg and jsgf_build_fsg_raw; oracle: least-fixpoint denotation (sets of strings up to 4 words) must equal '
             'the set accepted by each FSG, grammars with reachable undefined references or non-tail recursion on a cycle must be '
             'refused, weights per choice point sum to at most one (exactly one at the start state), a second build after building '
             'another rule gives the same arcs. non-trivial = representable grammar accepting at least one string',
        assumptions=['weights appear only at the head of alternatives, where JSGF allows them', 'imports are not explored',
                     'a quoted token "a" is taken to mean the word a (the scanner keeps the quotes in the word string)'] + TRUST,
    ),
    'C13': dict(
        title='grammar transformations and FSG files preserve the grammar',
        level='exploration',
        runs={'quick': _fsg_runs('quick'), 'thorough': _fsg_runs('thorough')},
        budget_s={'quick': 600, 'thorough': 3000},
        coverage=ex_cov,
        rule='every finite-state grammar with 1..N states, every start/final choice, every MULTISET of 0..A arcs from '
             '{from,to} x {a,b,eps} x {1,0.5,1e-8}, language weight {1,6.5} (N=3,A=3 quick; N=3,A=4 and N=4,A=3 thorough), built through '
             'the public fsg_model API; plus the null-transition family: all 3^12 graphs on 4 states whose ordered state pairs carry no null arc, one '
             'of probability 0.5 or one of 1e-8 (every labelling, hence every processing order of the closure); closure (x2), add_silence (x2), add_alt, closure, write->read applied; oracle: tropical-semiring '
             'evaluation of the arc list (accepted set + best log-probability of all 31 strings over {a,b} up to length 4), closure '
             'completeness, idempotence, round-trip equality to printed precision. non-trivial = the grammar accepts at least one '
             'string; every enumerated (grammar, lw) is distinct by construction',
        assumptions=['strings longer than 4 words are not compared (grammars have at most 4 states, so every simple path is covered)',
                     'log base 1.0001 as in the decoder'] + TRUST,
    ),
    'C06': dict(
        title='acoustic features do not depend on chunking, output limits or sample encoding',
        level='model_checking',
        runs={'quick': _fe_runs('quick'), 'thorough': _fe_runs('thorough')},
        budget_s={'quick': 240, 'thorough': 2400},
        coverage=mc_cov,
        rule='explicit-state BFS over processing-call sequences on the real front end: geometry (shift,size) in {4x8,3x7,4x4,2x9} '
             '(tiny sample rates) and the real 160x410, every one of the 144 option sets (noise removal, DC removal, 3 transforms, '
             'lifter, log/smooth spectrum, pre-emphasis off) x int16/float32; a call = (chunk length in {1,2,shift-1,shift,shift+1,'
             'size-1,size,size+1,size+shift,2size+1,rest}) x (output limit in {1,2,unlimited}) on an exact-size heap copy of the '
             'chunk; unconsumed samples are re-offered as a caller must; end of stream allowed in every state, i.e. every total '
             'length N in [0,3size+2shift]; state = (consumed, emitted, owed samples, overflow buffer, pre-emphasis prior, speech '
             'buffer, noise tracker); oracle: frames bit-identical to the one-call run, counts, pointer/count agreement, progress. The same '
             'with input_endian=big (the host is little-endian): the explored front ends get the byte-swapped signal, the reference the native one; and with a '
             'second utterance on the same front end after fe_start (every buffer of the front end is then part of the state, defined or not)',
        assumptions=['one fixed pseudo-random int16 signal, quiet in its first third, with full-scale samples mixed in (the chunking code does not branch on sample values)',
                     'dither off (process-global RNG)'] + TRUST,
    ),
    'C15': dict(
        title='endpointed speech segments are exact excerpts with consistent timestamps',
        level='model_checking',
        runs={'quick': _ep_runs(6, 3000), 'thorough': _ep_runs(11, 30000)},
        budget_s={'quick': 200, 'thorough': 2400},
        coverage=mc_cov,
        rule='for every configuration of a 10x8x5x6 grid (window, ratio, frame length, sample rate; incl. defaults and values the '
             'initialiser must reject) whose look-back window is <= maxwin frames: explicit-state BFS to fixpoint over '
             '{non-speech frame, speech frame, end_stream(0|1|full)} on the real endpointer with vad_classify interposed; frames carry '
             'their index so every returned frame is identified byte-wise; state = (pos, n, in_speech, whole is_speech[], queued frame '
             'ids and clocks relative to now, reference queue); a list model decides NULL/non-NULL, which frame, segment start/end '
             'conditions and times after every transition. Plus long periodic streams (all bit patterns of period <= 6) for clock drift.',
        assumptions=['end_stream is terminal (continuing a stream after end_stream is not documented and not explored)',
                     'VAD decisions are arbitrary bits: the WebRTC classifier itself is replaced by the harness',
                     'time equality is checked to 1e-6 s'] + TRUST,
    ),
    'C19': dict(
        title='log-add accurate, symmetric, monotone; log/exp round trip never increases',
        level='exploration',
        runs={'quick': _lm_runs(['1.0001', '1.0003', '1.001', '1.003', '1.01', '1.1'], [0, 1, 2, 4]) + _lm_edge_runs('quick'),
              'thorough': _lm_runs(['1.0001', '1.0003', '1.001', '1.003', '1.01', '1.1', '1.00001', '1.00005', '1.5', '2.0'],
                                   [0, 1, 2, 3, 4, 8]) + _lm_edge_runs('thorough')},
        budget_s={'quick': 120, 'thorough': 1200},
        coverage=ex_cov,
        rule='(also the exact addition logmath_add_exact, and logmath_add on objects without a table: every difference, far-apart operands to the underflow of the smaller one, both orders, log-zero) complete enumeration per (base, shift): every difference d in [0, table_size+512] x anchors r in '
             '{0,-1,-12345,zero+d+1} x both argument orders for logmath_add; every integer log value in [-2*table_size, 1000] '
             'x 5 fractional offsets for logmath_log/logmath_exp; oracle computed in long double. non-trivial = the add table '
             'contributed a non-zero increment, or the converted probability is not an exact power of the base; each (d, r) and '
             '(v, fraction) pair is distinct by construction',
        assumptions=['long double libm (expl/log1pl/logl) as the arithmetic oracle, tolerance 1e-4 unit for the table\'s accumulated division error',
                     'bases and shifts outside the listed grid are not explored; objects created without a table are judged on their '
                     'conversions and reported parameters only (the property speaks of the table-driven addition)'] + TRUST,
    ),
    'C20': dict(
        title='hash table is a map under any operation history',
        level='model_checking',
        runs={'quick': _hash_runs(6), 'thorough': _hash_runs(6) + _hash_runs(8)[:3]},
        budget_s={'quick': 120, 'thorough': 900},
        coverage=mc_cov,
        rule='explicit-state BFS to fixpoint over operation histories {enter,replace x value 1|2, delete} x key + empty() '
             'replayed on a fresh real hash_table_t (101 buckets); keys chosen by probing the real table so that >=3 '
             'distinct keys share one bucket, incl. prefix-related, case-variant, empty and embedded-NUL binary keys; '
             'state = bucket chains in order (key identity, len, val) + inuse; after every transition return value, '
             'lookup of every key, inuse, one iterator walk and one tolist export are compared with an association-list model',
        assumptions=['string-key and binary-key APIs are not mixed on one table (the header calls bkey on nocase tables unpredictable)',
                     'values are the two non-NULL tokens 1 and 2; table size fixed at the smallest prime (101)'] + TRUST,
    ),
}

PENDING_REASON = {}

MANIFEST_TEXT = {
    'C18': dict(
        text='Bounded exhaustive enumeration of extreme-waveform frame sequences through the real front end, scorer and search, with the '
             'range/finite oracle evaluated at the scoring seam on every frame and a bit-exact export/import oracle on the normalisation state.',
        design_ref='DESIGN.md section 2, H12', technique='bounded exhaustive enumeration of frame-type sequences with a per-frame range oracle at the scoring seam and overflow-trapping build',
        note='frame alphabet of 8 (11 for float) extreme waveforms; long chains to 18000 frames'),
    'C17': dict(
        text='Exhaustive fault enumeration over the stated fault model (all header/early truncations, all count-word corruptions, strided '
             'bulk truncations, missing file) executed on decoder_init with exact-size buffers under ASan/UBSan, followed each time by an '
             'intact load and a probe decode compared with the known digest.',
        design_ref='DESIGN.md section 2, H11', technique='exhaustive fault enumeration at the file-mapping seam, sanitizer and differential-probe oracle',
        note='bulk data truncations are strided; faults are single (one file, one damage) per run'),
    'C10': dict(
        text='Bounded exhaustive enumeration of inputs per entry point: all token sequences up to a length over sharp per-format alphabets and '
             'ALL single mutations (truncation, byte replacement, token deletion, line duplication) of valid seeds, executed under ASan/UBSan '
             'on exact-size unterminated buffers with exit/assert/hang as outcomes and allocator accounting per case.',
        design_ref='DESIGN.md section 2, H10', technique='bounded exhaustive enumeration of token sequences and complete single-mutation neighbourhoods, sanitizer oracle',
        note='token alphabets and seeds listed in harness/mc_parse.c; two-byte and longer mutations not explored'),
    'C07': dict(
        text='Iterative deviation bounding applied to the call pattern: every plan with up to 3 departures from the one-call reference '
             '(cuts at all threshold offsets, buffering, float entry, zero-length calls, partial queries) plus all subsets of a 10-point cut '
             'menu is executed on the real decoder with the real scorer and compared frame-by-frame (features) and result-by-result.',
        design_ref='DESIGN.md section 2, H8', technique='deviation-bounded exhaustive enumeration of call patterns, differential oracle against the one-call run',
        note='four excerpts of one recording plus zeros; two grammars'),
    'C08': dict(
        text='Bounded exhaustive enumeration of API histories on the real decoder with the real scorer; after each history a differential '
             'probe compares the state reached "from elsewhere" with a fresh decoder, in batch mode without any reset and in streaming '
             'mode after resetting channel normalisation; a second live decoder is interleaved in a separate column.',
        design_ref='DESIGN.md section 2, H9 (C08)', technique='bounded exhaustive enumeration of operation histories with a differential fresh-object oracle',
        note='histories up to length 2-4 depending on the operation subset; one probe utterance'),
    'C09': dict(
        text='Every history up to the stated lengths is executed in its own forked process under ASan/UBSan with assertions enabled; the '
             'verdict is the process outcome, the documented return values of out-of-order calls, and exact allocator accounting after the last free.',
        design_ref='DESIGN.md section 2, H9 (C09)', technique='bounded exhaustive enumeration of operation histories, sanitizer and allocator-accounting oracle',
        note='42-operation alphabet; lengths 2/3/5 (quick), 3/4/6 (thorough) on nested operation subsets'),
    'C16': dict(
        text='Bounded exhaustive enumeration of dictionary-centred histories with a reference dictionary checked after every operation, '
             'including internal alternate-chain integrity.',
        design_ref='DESIGN.md section 2, H9 (C16)', technique='bounded exhaustive enumeration of operation histories with a lock-step reference dictionary',
        note='9 base words, 5 addable spellings, 4200 generated words'),
    'C11': dict(
        text='Every lattice the decoder produces in the bounded exhaustive exploration, including mid-utterance ones, is traversed '
             'completely: graph shape, time consistency, and an exact dynamic program proving that every path spells a path of the input grammar.',
        design_ref='DESIGN.md section 2, H7 (C11)', technique='bounded exhaustive enumeration with complete graph traversal of every lattice',
        note='as C01'),
    'C12': dict(
        text='On every lattice of the exploration all start-to-end paths are enumerated and compared with best path and the complete '
             'N-best list; posteriors are recomputed by a long-double forward-backward pass over the same link scores.',
        design_ref='DESIGN.md section 2, H7 (C12)', technique='bounded exhaustive enumeration with full path enumeration and reference forward-backward',
        note='as C01'),
    'C04': dict(
        text='Every alignment obtained in the bounded exhaustive decoder exploration (final and mid-utterance) is checked structurally '
             'against segmentation and dictionary, and every state score is recomputed from first principles out of the injected score table.',
        design_ref='DESIGN.md section 2, H7 (C04)', technique='bounded exhaustive enumeration with independent recomputation of every alignment score',
        note='as C01'),
    'C14': dict(
        title='',
        text='Every JSON string produced in the exploration, for all levels/offsets/frame rates and for spellings from every character '
             'class the dictionary accepts, goes through a strict parser and a field-by-field comparison with the iterator interfaces.',
        design_ref='DESIGN.md section 2, H7 (C14)', technique='bounded exhaustive enumeration with strict JSON parsing and differential comparison',
        note='as C01'),
    'C01': dict(
        text='Bounded exhaustive exploration of the real decoder through its public API: every grammar of a canonical enumeration, reaching '
             'the decoder by four routes, against every "audio" over a finite symbol alphabet (the only seam is the senone score table), '
             'with default, tight and open beams and with partial results after every frame. Membership is decided by an NFA built from '
             'the input arc list, independent of the decoder\'s own grammar object.',
        design_ref='DESIGN.md section 2, H7 (C01)', technique='bounded exhaustive enumeration (grammars x utterances x call patterns) on the implementation with a reference NFA',
        note='audio abstracted to symbol sequences via injected senone scores; grammars up to 3 states; utterances up to 12 frames'),
    'C02': dict(
        text='For every explored (grammar, utterance, configuration) the reported path score is compared with an independently computed '
             'Viterbi optimum over the fully expanded, unshared, unpruned network; with open beams equality is exact because both sides '
             'use the same integer arithmetic. This is the differential oracle that shape-dependent lextree, context and history code cannot satisfy by accident.',
        design_ref='DESIGN.md section 2, H7 (C02)', technique='bounded exhaustive enumeration with an explicit-network reference Viterbi',
        note='reference shares only model tables (mdef, tmat, dictionary) with the decoder; documented context conventions granted'),
    'C03': dict(
        text='Every partial and final segmentation produced in the exploration is checked for tiling, score additivity, agreement with '
             'the hypothesis string and frame accounting, including utterances of 0-3 frames.',
        design_ref='DESIGN.md section 2, H7 (C03)', technique='bounded exhaustive enumeration with structural invariants on every result',
        note='as C01'),
    'C05': dict(
        text='Bounded exhaustive enumeration over JSGF programs: all grammars up to the stated tree sizes (about 3*10^5 quick, '
             '3*10^6 thorough) are compiled by the real parser and compiler and compared with an independent denotational '
             'semantics plus a static tail-recursion analysis; the compiler works by structural recursion on exactly these '
             'constructors, so small trees reach every expansion case and every pairing of constructors.',
        design_ref='DESIGN.md section 2, H5', technique='bounded exhaustive enumeration of programs against a denotational reference semantics',
        note='two words, three rule names, strings compared up to length 4; imports and weights in non-head positions out of scope'),
    'C13': dict(
        text='Bounded exhaustive enumeration of grammars as programs: all FSGs up to 3 states / 3 arcs (quick) or 3/4 and 4/3 '
             '(thorough), as multisets so duplicate arcs, self-loops, null chains and cycles and unreachable states all occur, '
             'each run through the real transformations and the real writer/reader and judged by an independent tropical-semiring '
             'evaluator on arc lists. The transformations are local rewrites on arcs, so small grammars exercise every rewrite case.',
        design_ref='DESIGN.md section 2, H6', technique='bounded exhaustive enumeration of grammars with a reference evaluator',
        note='two real words, three probabilities, two language weights; comparison on strings up to length 4'),
    'C06': dict(
        text='Explicit-state model checking of the real front end with analysis windows shrunk to a few samples, so that the '
             'reachable canonical states under ALL sequences of processing calls (11 chunk lengths x 3 output limits, re-offering '
             'what a call left) are explored to fixpoint for every total signal length up to 3 windows + 2 shifts, for 144 option '
             'sets and both encodings, plus the real 16 kHz geometry and 60000-sample single calls; each emitted frame is compared '
             'bit-for-bit with the one-call run under ASan with exact-size input and output blocks.',
        design_ref='DESIGN.md section 2, H4', technique='explicit-state BFS to fixpoint on the implementation, differential oracle against the one-call run',
        note='signal values fixed; geometries limited to the listed ones; src/fe_noise.c compiled into the harness unit to serialise the noise tracker'),
    'C15': dict(
        text='Explicit-state model checking of the real endpointer: for each accepted configuration with a window of up to 6 '
             '(quick) / 11 (thorough) frames the set of reachable canonical states under arbitrary per-frame VAD decisions and '
             'arbitrary end-of-stream points is explored to FIXPOINT, each transition executed on the implementation under ASan and '
             'compared with a list-based reference (which frame comes back, byte-identical, contiguous, non-overlapping, start/end '
             'thresholds, start/end times). The VAD bit sequence is the only way audio influences the endpointer, so every audio '
             'stream is covered for these configurations; rejected configurations are checked against the documented rules.',
        design_ref='DESIGN.md section 2, H3', technique='explicit-state BFS to fixpoint on the implementation with interposed VAD, lock-step list model',
        note='windows longer than 11 frames not explored; end_stream terminal; src/ps_endpointer.c is compiled into the harness unit to read its private struct'),
    'C20': dict(
        text='Explicit-state model checking of the real hash_table_t: breadth-first search to FIXPOINT over all histories of '
             'enter/replace/delete/empty on 6 (quick) or 8 (thorough) keys forced into shared buckets, in case-sensitive, '
             'case-insensitive and binary-key mode; every transition is executed on the implementation and compared with an '
             'association-list model (return value, every lookup, inuse, iterator walk, list export) under ASan. Because the '
             'canonical state space is finite and closed, the result covers histories of every length over this alphabet.',
        design_ref='DESIGN.md section 2, H1', technique='explicit-state BFS to fixpoint on the implementation, lock-step reference map',
        note='key alphabet of 6/8 keys and two values; 101-bucket table only; API mixing string/binary keys on one table excluded'),
    'C19': dict(
        text='Complete enumeration of the finite input space that decides the property per (base, shift): every table index and '
             '512 differences beyond the table, at several anchors and in both argument orders, plus every integer log value '
             'over twice the table range at five fractional positions for the conversions, judged by long-double arithmetic. '
             'logmath_add depends only on (max, difference), so all differences x representative anchors is the whole behaviour.',
        design_ref='DESIGN.md section 2, H2', technique='bounded exhaustive enumeration against a long-double oracle',
        note='grid of 6 (quick) / 10 (thorough) bases x 4/6 shifts; libm long double trusted; tolerance 1e-4 unit'),
}
