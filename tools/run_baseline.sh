#!/bin/bash
# Runs the repository's pinned test suite with the verification guard OFF (plain CMake build).
set -e
B=${B:-/repo/_build}
cmake -G Ninja -S /repo -B "$B" >/dev/null
cmake --build "$B" >/dev/null
ctest --test-dir "$B" -j8 --timeout 900 "$@"
