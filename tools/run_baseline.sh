#!/bin/bash
# Runs the repository's pinned test suite with the verification guard OFF (plain CMake build,
# no -DSOUNDSWALLOWER_VERIF).  B=<dir> selects the build directory (default /repo/_build);
# REPO=<dir> the source tree.  Prints the ctest summary and the list of the 30 pinned tests
# (from /root/.vp/BASELINE.json when present) that did not pass.
REPO=${REPO:-/repo}
B=${B:-$REPO/_build}
cmake -G Ninja -S "$REPO" -B "$B" >/dev/null || exit 2
T=$(sed -n '/^set(TESTS/,/)/p;/^set(TEST_EXECUTABLES/,/)/p' "$REPO/tests/CMakeLists.txt" | grep -o 'test_[a-z0-9_]*')
ninja -C "$B" -k 0 soundswallower $T >/dev/null 2>&1
ctest --test-dir "$B" -j8 --timeout 900 "$@" > "$B/ctest.out" 2>&1
grep -E "tests passed|tests failed" "$B/ctest.out"
PINNED="lcase1 lcase2 lcase3 strcmp1 strcmp2 strcmp3 test_acmod test_acmod_grow test_add_words test_bitvec test_byteorder test_ckd_alloc test_dict2pid test_dict test_endpointer test_err test_feat_fe test_feat_live test_fsg test_hash_iter test_jsgf test_listelem_alloc test_log_shifted test_ptm_mgau test_s3file test_subvq test_word_align ucase1 ucase2 ucase3"
bad=0
for t in $PINNED; do
  grep -Eq "Test +#[0-9]+: $t \.+ +Passed" "$B/ctest.out" || { echo "PINNED TEST NOT PASSING: $t"; bad=1; }
done
[ $bad = 0 ] && echo "all 30 pinned tests pass"
exit $bad
