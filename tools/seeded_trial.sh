#!/bin/bash
# seeded_trial.sh <ID> <variant> [check ids...]
# Confirms one seeded change produced by an independent agent (in /tmp/seed/out/<ID>/) on the scratch worktree
# /tmp/seed/<ID>: pinned tests pass with it, its demonstration fails with it and passes without it; then runs the
# given checks (default: <ID>) against the changed tree (REPO=<worktree>, evidence redirected) and records the
# outcome in /verif/seeded/<ID>_<variant>/.  VERIF_RUN_DIR=<copy of /verif> runs the checks from a frozen copy of the machinery.
ID=$1; V=$2; shift 2
CHECKS=${@:-$ID}
W=/tmp/seed/$ID; O=/tmp/seed/out${ROUND:+$ROUND}/$ID; D=/verif/seeded/${ID}_${ROUND:+r$ROUND}$V   # ROUND=2 selects the second round's deliverables
mkdir -p $D
[ -f $D/patch.diff ] || cp $O/patch_$V.diff $D/patch.diff   # a stored patch (possibly re-based on later fixes) is kept
cp $O/demo_$V.* $D/ 2>/dev/null
[ -f $D/meta.json ] || python3 - "$O/meta.json" "$V" "$D/meta.json" <<'PY'
import json,sys
m=json.load(open(sys.argv[1]))
v=[x for x in m.get('variants',[]) if x.get('name')==sys.argv[2]]
json.dump(dict(property=m.get('property'),variant=sys.argv[2],**(v[0] if v else {})),open(sys.argv[3],'w'),indent=1)
PY
git -C $W checkout -q -- . || exit 2
git -C $W checkout -q --detach $(git -C /repo rev-parse HEAD) || exit 2   # later fix: commits of /repo are part of the unchanged tree
{
echo "== unchanged tree: demo"
ninja -C $W/_build soundswallower >/dev/null 2>&1
( cd $D && timeout 300 bash ./demo_$V.sh $W > /var/tmp/seeded_demo_$ID$V.out 2>&1; echo "demo exit (unchanged) = $?" >> /var/tmp/seeded_demo_$ID$V.out ); tail -4 /var/tmp/seeded_demo_$ID$V.out
git -C $W apply $D/patch.diff || { echo "PATCH DOES NOT APPLY"; exit 2; }
echo "== changed tree: pinned tests"
REPO=$W B=$W/_build /tmp/seed/run_tests.sh 2>&1 | tail -2
echo "== changed tree: demo"
( cd $D && timeout 300 bash ./demo_$V.sh $W > /var/tmp/seeded_demo_$ID$V.out 2>&1; echo "demo exit (changed) = $?" >> /var/tmp/seeded_demo_$ID$V.out ); tail -4 /var/tmp/seeded_demo_$ID$V.out
for c in $CHECKS; do
  echo "== changed tree: ./check $c (quick)"
  ( cd ${VERIF_RUN_DIR:-/verif} && REPO=$W VERIF_EVIDENCE_DIR=/var/tmp/seeded_ev timeout 3000 ./check $c > /var/tmp/seeded_check_$ID$V.out 2>&1; echo "check $c exit = $?" >> /var/tmp/seeded_check_$ID$V.out ); grep -v "^KNOWN-FINDING" /var/tmp/seeded_check_$ID$V.out | cut -c1-600 | tail -7
done
git -C $W checkout -q -- .
} 2>&1 | tee $D/result.txt
