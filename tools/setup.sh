#!/bin/bash
# Offline setup: nothing to fetch; pre-build the ASan library from /repo so the first check is fast.
cd "$(dirname "$0")/.."
chmod +x check tools/*.sh 2>/dev/null
tools/build_lib.sh asan >/dev/null
