#!/usr/bin/env python3
"""Regenerate MANIFEST.json from checks.py (claimed checks) + pending list (not_applicable)."""
import json, os, sys, subprocess
V = os.path.dirname(os.path.dirname(os.path.abspath(__file__)))
sys.path.insert(0, V)
from checks import CHECKS, HARNESSES, MANIFEST_TEXT, PENDING_REASON
ids = [json.loads(l)['id'] for l in open(os.path.join(V, 'properties.jsonl'))]
fixes = subprocess.run(['git', '-C', '/repo', 'log', '--format=%h %s'], stdout=subprocess.PIPE, text=True).stdout
m = {
    "version": 1,
    "setup_cmd": "./tools/setup.sh",
    "hooks": {
        "guard": "SOUNDSWALLOWER_VERIF",
        "enable": "tools/build_lib.sh compiles /repo/src with -DSOUNDSWALLOWER_VERIF; there are no guarded source hooks: every seam is a link-time --wrap interposition in the harness",
        "baseline_off_cmd": "./tools/run_baseline.sh",
        "source_commits": [],
        "add_only": True,
    },
    "engines": [
        {"name": "mc-engine", "path": "engine/mc.h",
         "serves_properties": sorted(CHECKS),
         "kind_free_text": "hand-written explicit-state BFS over operation histories replayed on the real objects (128-bit canonical-state hashing, replay-determinism assertion), odometer enumeration, fork-per-case executor with sanitizer/exit/hang outcome capture; driver ./check replays every violation twice before reporting"},
    ],
    "checks": [],
    "notes": "All checks rebuild the library from /repo's working tree (tools/build_lib.sh, keyed by a hash of src/ and include/). Repairs committed to /repo as fix: commits: "
             + "; ".join(l for l in fixes.splitlines() if ' fix:' in l),
    "not_applicable": [],
}
for pid in ids:
    if pid in CHECKS:
        c = CHECKS[pid]
        t = MANIFEST_TEXT[pid]
        m["checks"].append({
            "property_id": pid,
            "quick_cmd": "./check %s --tier quick" % pid,
            "thorough_cmd": "./check %s --tier thorough" % pid,
            "evidence_file": "evidence/%s.json" % pid,
            "replay_cmd_template": "./check %s --replay {path}" % pid,
            "engine": "mc-engine",
            "level_claimed": {"category": c['level'], "text": t['text'], "design_ref": t['design_ref']},
            "level_note": t['note'],
            "technique": t['technique'],
        })
    else:
        m["not_applicable"].append({"property_id": pid, "reason": PENDING_REASON.get(pid, "harness not completed yet (build in progress); not claimed")})
json.dump(m, open(os.path.join(V, 'MANIFEST.json'), 'w'), indent=1)
print("claimed:", [c['property_id'] for c in m['checks']])
