#!/bin/bash
# Build /repo's library sources (list parsed from src/CMakeLists.txt) into a static
# library under /verif/build/<tree-hash>/<flavour>/ and print that directory.
# Usage: build_lib.sh <asan|ovf|fast|tsan> [extra -D flags...]
# REPO may be overridden (default /repo).  Rebuilds iff the tree hash changed.
set -e
FLAV=${1:-asan}; shift || true
REPO=${REPO:-/repo}
VERIF=$(cd "$(dirname "$0")/.." && pwd)
HASH=$( (cd "$REPO" && find src include -type f \( -name '*.c' -o -name '*.h' -o -name 'CMakeLists.txt' \) -print0 | sort -z | xargs -0 sha256sum; echo "$REPO $*") | sha256sum | cut -c1-16)
OUT=$VERIF/build/$HASH/$FLAV
if [ -f "$OUT/libss.a" ] && [ -f "$OUT/.done" ]; then echo "$OUT"; exit 0; fi
# prune old tree-hash dirs: keep the 8 most recent besides this one, and never one touched in the last two hours
# (another check may be running from it)
mkdir -p "$VERIF/build"
for d in $(ls -1dt "$VERIF"/build/*/ 2>/dev/null | grep -v "/$HASH/" | grep -v "/runs/" | tail -n +9); do
  [ -n "$(find "$d" -maxdepth 2 -mmin -120 -print -quit 2>/dev/null)" ] || rm -rf "$d"
done
rm -rf "$OUT"; mkdir -p "$OUT/obj"
cat > "$OUT/config.h" <<EOF
#define HAVE_UNISTD_H
#define HAVE_STDINT_H
#define HAVE_SYS_TYPES_H
#define HAVE_SYS_STAT_H
#define HAVE_SNPRINTF
#define HAVE_POPEN
#define HAVE_GETRUSAGE
#define WORDS_BIGENDIAN 0
EOF
case $FLAV in
  asan) CFLAGS="-O1 -g -fsanitize=address -fsanitize=bounds,null,object-size,vla-bound -fno-sanitize-recover=all -fno-omit-frame-pointer" ;;
  ovf)  CFLAGS="-O1 -g -fsanitize=address -fsanitize=bounds,null,object-size,vla-bound,signed-integer-overflow,float-cast-overflow -fno-sanitize-recover=all -fno-omit-frame-pointer" ;;
  fast) CFLAGS="-O2 -g" ;;
  *) echo "unknown flavour $FLAV" >&2; exit 2 ;;
esac
SRCS=$(sed -n '/^set(SOURCES/,/)/p' "$REPO/src/CMakeLists.txt" | grep '\.c$' | tr -d ' ')
cd "$OUT/obj"
fail=0
printf '%s\n' $SRCS | xargs -P 16 -I{} sh -c '
  o=$(echo {} | tr / _); o=${o%.c}.o
  gcc '"$CFLAGS"' -DHAVE_CONFIG_H -DSOUNDSWALLOWER_VERIF '"$*"' -w -I'"$OUT"' -I'"$REPO"'/src -I'"$REPO"'/include -c '"$REPO"'/src/{} -o $o || exit 255' >&2 || fail=1
if [ $fail = 1 ]; then echo "BUILD FAILED" >&2; exit 2; fi
ar rcs "$OUT/libss.a" *.o
echo "$CFLAGS" > "$OUT/cflags"
touch "$OUT/.done"
echo "$OUT"
